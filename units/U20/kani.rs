// U20 (Kani) — where appends continue after a (re)open (C05: "further appends continue partition sequences and stream versions
// with no gap and no reuse"; C02: validation reads the stream's latest version through the same lookup). The three WriterSet
// lookups are extracted verbatim; the live indexes and the sealed segments' index files are lookup tables (D4).
#![allow(unused, dead_code, static_mut_refs)]
//@include shims/model_hash.rs CAP=4
//@include shims/model_btreemap.rs CAP=4
use std::cell::{Ref, RefCell};

pub type BucketId = u16;
pub type PartitionId = u16;
pub type SegmentId = u32;
#[derive(Clone, Copy, Debug, PartialEq, Eq)]
pub struct Uuid(pub u8);
#[derive(Clone, Copy, Debug, PartialEq, Eq, Hash)]
pub struct StreamId(pub u8);
#[derive(Clone, Copy, Debug, PartialEq, Eq)]
pub struct BucketSegmentId { pub bucket_id: BucketId, pub segment_id: SegmentId }
#[derive(Debug)]
pub struct PartitionIndexError;
#[derive(Debug)]
pub struct StreamIndexError;
#[derive(Clone, Copy, Debug)]
pub struct PartitionIndexRecord { pub sequence_min: u64, pub sequence_max: u64, pub sequence: u64, pub offsets: () }
#[derive(Clone, Copy, Debug)]
pub struct StreamIndexRecord { pub partition_key: Uuid, pub version_min: u64, pub version_max: u64, pub offsets: () }
/// the live (open) indexes: one partition / one stream of interest, present or not
pub struct OpenPartitionIndex { pub pid: PartitionId, pub rec: Option<PartitionIndexRecord> }
impl OpenPartitionIndex { pub fn get(&self, p: PartitionId) -> Option<&PartitionIndexRecord> { if p == self.pid { self.rec.as_ref() } else { None } } }
pub struct OpenStreamIndex { pub sid: StreamId, pub rec: Option<StreamIndexRecord> }
impl OpenStreamIndex { pub fn get(&self, s: &StreamId) -> Option<&StreamIndexRecord> { if *s == self.sid { self.rec.as_ref() } else { None } } }
pub struct LiveIndexSet { pub partition_index: OpenPartitionIndex, pub stream_index: OpenStreamIndex }
pub struct LiveIndexes { pub inner: RefCell<LiveIndexSet> }
impl LiveIndexes { pub fn blocking_read(&self) -> Ref<'_, LiveIndexSet> { self.inner.borrow() } }
/// a sealed segment's index files: the record stored for the key, or nothing, or an I/O error
pub struct ClosedPartitionIndex { pub pid: PartitionId, pub rec: Option<PartitionIndexRecord>, pub fails: bool }
impl ClosedPartitionIndex { pub fn get_key(&mut self, p: PartitionId) -> Result<Option<PartitionIndexRecord>, PartitionIndexError> { if self.fails { Err(PartitionIndexError) } else if p == self.pid { Ok(self.rec) } else { Ok(None) } } }
pub struct ClosedStreamIndex { pub sid: StreamId, pub rec: Option<StreamIndexRecord>, pub fails: bool }
impl ClosedStreamIndex { pub fn get_key(&mut self, s: &StreamId) -> Result<Option<StreamIndexRecord>, StreamIndexError> { if self.fails { Err(StreamIndexError) } else if *s == self.sid { Ok(self.rec) } else { Ok(None) } } }
pub struct ReaderSet { pub partition_index: Option<ClosedPartitionIndex>, pub stream_index: Option<ClosedStreamIndex> }
pub type Readers = HashMap<BucketId, BTreeMap<SegmentId, ReaderSet>>;
pub static mut READERS: Option<Readers> = None;
pub struct ReaderThreadPool;
impl ReaderThreadPool {
    /// the real `install` runs `op` on a pool thread and hands it a function that applies a closure to that thread's segment map
    pub fn install<OP, R, IN, RR>(&self, op: OP) -> R where OP: FnOnce(fn(IN) -> RR) -> R, IN: FnOnce(&mut Readers) -> RR {
        fn with_reader<IN: FnOnce(&mut Readers) -> RR, RR>(op: IN) -> RR { unsafe { op(READERS.as_mut().unwrap()) } }
        op(with_reader::<IN, RR> as fn(IN) -> RR)
    }
}

//@item PartitionLatestSequence
//@item StreamLatestVersion
//@item WriterSet
//@item WriterSet::next_partition_sequence
//@item WriterSet::read_partition_latest_sequence
//@item WriterSet::read_stream_latest_version

#[cfg(kani)]
mod verif {
    use super::*;
    const PID: PartitionId = 7;
    const SID: StreamId = StreamId(3);
    const BUCKET: BucketId = 2;

    fn prec(max: u64) -> PartitionIndexRecord { PartitionIndexRecord { sequence_min: 0, sequence_max: max, sequence: max, offsets: () } }
    fn srec(key: u8, max: u64) -> StreamIndexRecord { StreamIndexRecord { partition_key: Uuid(key), version_min: 0, version_max: max, offsets: () } }

    /// <= 3 sealed segments (ids 1, 2, 3; present or not); each may lack the index, hold the key (with an arbitrary maximum) or not
    struct World { present: [bool; 3], has_index: [bool; 3], holds: [bool; 3], max: [u64; 3], key: [u8; 3], live: Option<u64>, live_key: u8 }
    fn any_world() -> World {
        let w = World { present: kani::any(), has_index: kani::any(), holds: kani::any(), max: kani::any(), key: kani::any(), live: kani::any(), live_key: kani::any() };
        // data invariant: maxima increase with the segment id among the segments that hold the key; the live segment is the newest
        let mut last: Option<u64> = None;
        let mut i = 0;
        while i < 3 {
            if w.present[i] && w.has_index[i] && w.holds[i] { if let Some(l) = last { kani::assume(w.max[i] > l); } last = Some(w.max[i]); }
            i += 1;
        }
        if let (Some(l), Some(live)) = (last, w.live) { kani::assume(live > l); }
        w
    }
    fn install(w: &World, partition: bool) -> WriterSet {
        let mut segs: BTreeMap<SegmentId, ReaderSet> = BTreeMap::new();
        let mut i = 0;
        while i < 3 {
            if w.present[i] {
                let rs = if !w.has_index[i] { ReaderSet { partition_index: None, stream_index: None } } else {
                    ReaderSet { partition_index: Some(ClosedPartitionIndex { pid: PID, rec: if partition && w.holds[i] { Some(prec(w.max[i])) } else { None }, fails: false }),
                                stream_index: Some(ClosedStreamIndex { sid: SID, rec: if !partition && w.holds[i] { Some(srec(w.key[i], w.max[i])) } else { None }, fails: false }) } };
                segs.insert(1 + i as u32, rs);
            }
            i += 1;
        }
        let mut readers: Readers = HashMap::new();
        readers.insert(BUCKET, segs);
        unsafe { READERS = Some(readers); }
        WriterSet {
            reader_pool: ReaderThreadPool, bucket_segment_id: BucketSegmentId { bucket_id: BUCKET, segment_id: 4 }, next_partition_sequences: HashMap::new(),
            indexes: LiveIndexes { inner: RefCell::new(LiveIndexSet {
                partition_index: OpenPartitionIndex { pid: PID, rec: if partition { w.live.map(prec) } else { None } },
                stream_index: OpenStreamIndex { sid: SID, rec: if !partition { w.live.map(|m| srec(w.live_key, m)) } else { None } } }) },
        }
    }
    /// the newest holder of the key: the live index, else the sealed segment with the largest id that holds it
    fn newest(w: &World) -> Option<(u64, u8)> {
        if let Some(m) = w.live { return Some((m, w.live_key)); }
        let mut i = 3;
        while i > 0 { i -= 1; if w.present[i] && w.has_index[i] && w.holds[i] { return Some((w.max[i], w.key[i])); } }
        None
    }

    #[kani::proof]
    #[kani::unwind(6)]
    fn next_partition_sequence_continues() {
        let w = any_world();
        let mut ws = install(&w, true);
        let cached: Option<u64> = kani::any();
        if let Some(c) = cached { ws.next_partition_sequences.insert(PID, c); }
        kani::cover!(cached.is_none() && w.live.is_none() && w.present[0] && w.has_index[0] && w.holds[0] && w.present[2] && w.has_index[2] && w.holds[2], "reachable: the partition spans two sealed segments and is absent from the live one");
        if let (None, Some((m, _))) = (cached, newest(&w)) { kani::assume(m < u64::MAX); }
        let r = ws.next_partition_sequence(PID);
        let want = match cached { Some(c) => c, None => match newest(&w) { Some((m, _)) => m + 1, None => 0 } };
        assert!(matches!(r, Ok(n) if n == want), "appends continue at the cached sequence, else one past the maximum over the live index and ALL sealed segments, else at 0");
        // an unknown partition starts at 0
        assert!(matches!(ws.next_partition_sequence(PID + 1), Ok(0)));
    }

    #[kani::proof]
    #[kani::unwind(6)]
    fn stream_latest_version_is_newest() {
        let w = any_world();
        let ws = install(&w, false);
        kani::cover!(w.live.is_none() && w.present[1] && w.has_index[1] && w.holds[1] && w.present[2] && w.has_index[2] && !w.holds[2], "reachable: the stream's newest holder is not the newest sealed segment");
        let r = ws.read_stream_latest_version(&SID);
        match (r, newest(&w)) {
            (Ok(Some(got)), Some((m, k))) => { assert!(got.version == m && got.partition_key == Uuid(k), "the stream's latest version and partition key come from its newest holder"); }
            (Ok(None), None) => {}
            _ => { assert!(false, "found iff some index holds the stream; no error on healthy index files"); }
        }
        assert!(matches!(ws.read_stream_latest_version(&StreamId(9)), Ok(None)));
    }
}
