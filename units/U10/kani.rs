// U10 (Kani) — OrderedQueue (the reorder buffer of the partition replicator) extracted verbatim, compiled against
// the model BTreeMap (D4). One harness per method over an ARBITRARY queue state (keys and `next` full-range u64);
// bounded only in the number of buffered entries (<= 3) and the limit (<= 3).
#![allow(unused, dead_code)]
//@include shims/model_btreemap.rs
use btree_map::Entry;

//@item OrderedValue
//@item OrderedQueue
//@item OrderedQueue::new
//@item OrderedQueue::insert
//@item OrderedQueue::pop
//@item OrderedQueue::progress_to
//@item OrderedQueue::next
//@item InsertResult
//@item Error

#[cfg(kani)]
mod verif {
    use super::*;

    #[derive(Clone, Copy, Debug, PartialEq, Eq)]
    pub struct Val { pub id: u8, pub merges: u8 }
    impl OrderedValue for Val {
        fn key_eq(&self, other: &Self) -> bool { self.id == other.id }
        fn merge(&mut self, new: Self) { self.merges = self.merges.wrapping_add(new.merges).wrapping_add(1); }
    }
    fn any_val() -> Val { Val { id: kani::any(), merges: kani::any() } }

    /// snapshot of the buffer: n entries (ascending keys)
    #[derive(Clone, Copy, Debug)]
    pub struct Snap { pub n: usize, pub k: [u64; 4], pub v: [Val; 4] }
    fn same(a: &Snap, b: &Snap) -> bool {
        if a.n != b.n { return false; }
        let mut i = 0;
        while i < a.n && i < 4 { if a.k[i] != b.k[i] || a.v[i].id != b.v[i].id || a.v[i].merges != b.v[i].merges { return false; } i += 1; }
        true
    }
    const Z: Val = Val { id: 0, merges: 0 };
    fn snap(q: &OrderedQueue<u64, Val>) -> Snap {
        let mut s = Snap { n: q.map.n, k: [0; 4], v: [Z; 4] };
        let mut i = 0;
        while i < q.map.n && i < 4 { s.k[i] = *q.map.key_at(i); s.v[i] = *q.map.val_at(i); i += 1; }
        s
    }
    /// arbitrary queue: n <= 3 entries with strictly ascending symbolic keys, 1 <= limit <= 3, n <= limit
    fn any_queue() -> OrderedQueue<u64, Val> {
        let n: usize = kani::any();
        let limit: usize = kani::any();
        kani::assume(limit >= 1 && limit <= 3 && n <= limit);
        let k0: u64 = kani::any();
        let k1: u64 = kani::any();
        let k2: u64 = kani::any();
        kani::assume(k0 < k1 && k1 < k2);
        let slots = [
            if n > 0 { Some((k0, any_val())) } else { None },
            if n > 1 { Some((k1, any_val())) } else { None },
            if n > 2 { Some((k2, any_val())) } else { None },
            None,
        ];
        OrderedQueue { map: BTreeMap { slots, n }, next: kani::any(), limit }
    }
    fn position(s: &Snap, key: u64) -> Option<usize> {
        let mut i = 0;
        while i < s.n { if s.k[i] == key { return Some(i); } i += 1; }
        None
    }
    fn without(s: &Snap, idx: usize) -> Snap {
        let mut o = Snap { n: 0, k: [0; 4], v: [Z; 4] };
        let mut i = 0;
        while i < s.n { if i != idx { o.k[o.n] = s.k[i]; o.v[o.n] = s.v[i]; o.n += 1; } i += 1; }
        o
    }
    fn with_inserted(s: &Snap, key: u64, val: Val) -> Snap {
        let mut o = Snap { n: 0, k: [0; 4], v: [Z; 4] };
        let mut done = false;
        let mut i = 0;
        while i < s.n {
            if !done && s.k[i] > key { o.k[o.n] = key; o.v[o.n] = val; o.n += 1; done = true; }
            o.k[o.n] = s.k[i]; o.v[o.n] = s.v[i]; o.n += 1;
            i += 1;
        }
        if !done { o.k[o.n] = key; o.v[o.n] = val; o.n += 1; }
        o
    }

    #[kani::proof]
    #[kani::unwind(6)]
    fn oq_insert() {
        let mut q = any_queue();
        let before = snap(&q);
        let (next, limit) = (q.next, q.limit);
        let key: u64 = kani::any();
        let val = any_val();
        let pos = position(&before, key);
        let r = q.insert(key, val);
        assert!(q.next == next && q.limit == limit, "insert never moves the next expected sequence");
        assert!(q.map.len() <= limit, "the buffer never exceeds its limit");
        match r {
            Err(Error::Stale { key: k, value: v }) => {
                assert!(key < next, "Stale only below the next expected sequence");
                assert!(k == key && v == val);
                assert!(same(&snap(&q), &before), "a rejected stale write changes nothing");
            }
            Err(Error::Conflict { value: v }) => {
                assert!(key >= next);
                assert!(pos.is_some(), "Conflict only against a buffered write of the same sequence");
                assert!(!val.key_eq(&before.v[pos.unwrap()]));
                assert!(v == val);
                assert!(same(&snap(&q), &before), "a rejected conflicting write changes nothing");
            }
            Err(Error::Full { key: k, value: v }) => {
                assert!(key > next && pos.is_none() && before.n >= limit);
                assert!(before.k[before.n - 1] < key, "Full only when the new key is beyond every buffered key");
                assert!(k == key && v == val);
                assert!(same(&snap(&q), &before), "a rejected write changes nothing");
            }
            Ok(res) => {
                assert!(key >= next, "a write below the next expected sequence is never accepted");
                if key == next {
                    assert!(res.evicted.is_none());
                    match pos {
                        None => {
                            assert!(res.next == Some(val) && !res.merged_with_existing, "the expected write is handed over as is");
                            assert!(same(&snap(&q), &before));
                        }
                        Some(i) => {
                            assert!(val.key_eq(&before.v[i]), "only a duplicate of the buffered write is merged");
                            let mut e = before.v[i];
                            e.merge(val);
                            assert!(res.next == Some(e) && res.merged_with_existing, "duplicate merged into the buffered write, handed over once");
                            assert!(same(&snap(&q), &without(&before, i)), "only the handed-over entry leaves the buffer");
                        }
                    }
                } else {
                    assert!(res.next.is_none(), "an out-of-order write is buffered, not applied");
                    match pos {
                        Some(i) => {
                            assert!(val.key_eq(&before.v[i]));
                            assert!(res.merged_with_existing && res.evicted.is_none(), "a duplicate merges in place and needs no room");
                            let mut exp = before;
                            exp.v[i].merge(val);
                            assert!(same(&snap(&q), &exp), "every other buffered write is untouched");
                        }
                        None => {
                            assert!(!res.merged_with_existing);
                            if before.n < limit {
                                assert!(res.evicted.is_none());
                                assert!(same(&snap(&q), &with_inserted(&before, key, val)));
                            } else {
                                let last = (before.k[before.n - 1], before.v[before.n - 1]);
                                assert!(res.evicted == Some(last), "only the largest buffered write is evicted, and it is reported");
                                assert!(last.0 > key, "eviction only in favour of a smaller sequence");
                                assert!(same(&snap(&q), &with_inserted(&without(&before, before.n - 1), key, val)));
                            }
                        }
                    }
                }
            }
        }
        kani::cover!(before.n == 3 && key > next && pos.is_none(), "reachable: full buffer, new key");
    }

    #[kani::proof]
    #[kani::unwind(6)]
    fn oq_pop_progress_next() {
        let mut q = any_queue();
        let before = snap(&q);
        let next = q.next;
        assert!(*q.next() == next);
        let r = q.pop();
        match position(&before, next) {
            Some(i) => { assert!(r == Some(before.v[i]), "pop hands over exactly the write buffered at the next expected sequence"); assert!(same(&snap(&q), &without(&before, i))); }
            None => { assert!(r.is_none()); assert!(same(&snap(&q), &before), "pop without a ready write changes nothing"); }
        }
        assert!(q.next == next);
        let after_pop = snap(&q);
        let n: u64 = kani::any();
//@carve KF-C12-progress-to-keeps-stale         kani::assume(after_pop.n == 0 || after_pop.k[0] >= n);
        q.progress_to(n);
        assert!(q.next == n && *q.next() == n);
        assert!(same(&snap(&q), &after_pop), "progress_to does not touch buffered writes at or above the new next");
        let mut i = 0;
        while i < q.map.len() {
            assert!(*q.map.key_at(i) >= n, "no write is left pending below the next expected sequence");
            i += 1;
        }
        kani::cover!(after_pop.n == 2, "reachable");
    }

    #[kani::proof]
    fn oq_new() {
        let n: u64 = kani::any();
        let limit: usize = kani::any();
        kani::assume(limit > 0);
        let q: OrderedQueue<u64, Val> = OrderedQueue::new(n, limit);
        assert!(q.map.is_empty() && q.next == n && q.limit == limit);
    }
}
