// U10 (Verus) — OrderedQueue::{pop, progress_to, next} (C12), generic in key and value, UNBOUNDED: whole-map postconditions
// (`pop` hands over exactly the write buffered at the next expected sequence and removes nothing else; `progress_to` only moves
// `next`). `insert` uses the BTreeMap Entry API, which the Verus front end rejects: it stays with the bounded Kani harnesses.
use vstd::prelude::*;
use std::collections::BTreeMap;
verus! {
//@item OrderedQueue
//@item OrderedQueue::pop
//@item OrderedQueue::progress_to
//@item OrderedQueue::next
}
fn main() {}
