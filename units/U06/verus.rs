// U06 — distribute_partition (C24). Template: shims, spec functions and the number-theory lemma library.
// The function itself, the constant and the two type aliases are extracted from /repo on every run (//@item lines).
use vstd::prelude::*;
use vstd::arithmetic::div_mod::*;
use vstd::arithmetic::mul::*;
use std::cmp;
use vstd::std_specs::cmp::*;
verus! {
pub assume_specification<T: std::cmp::Ord + std::marker::Destruct>[std::cmp::min](a: T, b: T) -> (r: T)
    ensures T::obeys_cmp_spec() ==> r == (if a.cmp_spec(&b) == cmp::Ordering::Greater { b } else { a });

//@item MAX_REPLICATION_FACTOR
//@item PartitionHash
//@item PartitionId

// ---------------- shim: arrayvec::ArrayVec ----------------
#[verifier::external_body]
#[verifier::accept_recursive_types(T)]
pub struct ArrayVec<T, const CAP: usize> { inner: Vec<T> }
impl<T, const CAP: usize> View for ArrayVec<T, CAP> {
    type V = Seq<T>;
    uninterp spec fn view(&self) -> Seq<T>;
}
impl<T: PartialEq + Copy, const CAP: usize> ArrayVec<T, CAP> {
    #[verifier::external_body]
    pub fn new() -> (r: Self) ensures r@.len() == 0 { unimplemented!() }
    #[verifier::external_body]
    pub fn push(&mut self, v: T)
        requires old(self)@.len() < CAP
        ensures final(self)@ == old(self)@.push(v)
    { unimplemented!() }
    #[verifier::external_body]
    pub fn contains(&self, v: &T) -> (b: bool) ensures b == self@.contains(*v) { unimplemented!() }
    #[verifier::external_body]
    pub fn is_full(&self) -> (b: bool) ensures b == (self@.len() == CAP) { unimplemented!() }
}

// ---------------- spec ----------------
pub open spec fn spec_jump(n: int) -> int {
    if n <= 2 { 1 } else {
        let c = n / 2 + 1;
        if n % 2 == 0 && c % 2 == 0 { c + 1 } else { c }
    }
}
pub open spec fn walk(h: int, n: int, i: int) -> int { (h % n + i * spec_jump(n)) % n }
pub open spec fn min3(a: int, b: int, c: int) -> int { if a <= b { if a <= c { a } else { c } } else { if b <= c { b } else { c } } }
pub open spec fn spec_dist(h: int, n: int, rf: int) -> Seq<u16> {
    if n == 0 || rf == 0 { Seq::empty() } else { Seq::new(min3(rf, n, 12) as nat, |i: int| walk(h, n, i) as u16) }
}

// ---------------- number theory ----------------
proof fn lemma_unit_cancels(n: int, j: int, u: int, d: int)
    requires n > 1, (j * u) % n == 1, (d * j) % n == 0
    ensures d % n == 0
{
    let q = (d * j) / n;
    lemma_fundamental_div_mod(d * j, n);
    let r = (j * u) / n;
    lemma_fundamental_div_mod(j * u, n);
    assert(d == (q * u - d * r) * n) by (nonlinear_arith)
        requires d * j == n * q, j * u == n * r + 1;
    lemma_mod_multiples_basic(q * u - d * r, n);
}

proof fn lemma_jump_cancels(n: int, d: int)
    requires n >= 1, (d * spec_jump(n)) % n == 0
    ensures d % n == 0
{
    if n == 1 {
        lemma_fundamental_div_mod(d, 1);
    } else if n == 2 {
        assert(d * 1 == d);
    } else if n % 2 == 1 {
        let k = n / 2;
        assert(spec_jump(n) == k + 1);
        assert(spec_jump(n) * 2 == n + 1) by (nonlinear_arith) requires spec_jump(n) == k + 1, n == 2 * k + 1;
        lemma_mod_add_multiples_vanish(1, n);
        lemma_small_mod(1nat, n as nat);
        lemma_unit_cancels(n, spec_jump(n), 2, d);
    } else if n % 4 == 0 {
        let k = n / 4;
        assert(n / 2 == 2 * k);
        assert(spec_jump(n) == 2 * k + 1);
        assert(spec_jump(n) * spec_jump(n) == (k + 1) * n + 1) by (nonlinear_arith) requires spec_jump(n) == 2 * k + 1, n == 4 * k;
        lemma_mod_multiples_vanish(k + 1, 1, n);
        lemma_small_mod(1nat, n as nat);
        lemma_unit_cancels(n, spec_jump(n), spec_jump(n), d);
    } else {
        // n = 4k+2 = 2m, m = 2k+1 odd, jump = m + 2
        let m = n / 2;
        let k = m / 2;
        assert(n == 2 * m && m == 2 * k + 1);
        assert(spec_jump(n) == m + 2);
        let q = (d * spec_jump(n)) / n;
        lemma_fundamental_div_mod(d * spec_jump(n), n);
        assert(d * (m + 2) == 2 * m * q) by (nonlinear_arith) requires d * spec_jump(n) == n * q, spec_jump(n) == m + 2, n == 2 * m;
        // (1) m | 2d :  2d = m*(2q - d)
        assert(d * 2 == m * (2 * q - d)) by (nonlinear_arith) requires d * (m + 2) == 2 * m * q;
        lemma_mod_multiples_basic(2 * q - d, m);
        assert((2 * q - d) * m == m * (2 * q - d)) by (nonlinear_arith);
        assert((d * 2) % m == 0);
        // 2 * (k+1) = m + 1 ≡ 1 mod m
        if m > 1 {
            assert(2 * (k + 1) == m + 1);
            lemma_mod_add_multiples_vanish(1, m);
            lemma_small_mod(1nat, m as nat);
            lemma_unit_cancels(m, 2, k + 1, d);
        } else {
            lemma_fundamental_div_mod(d, 1);
        }
        assert(d % m == 0);
        // (2) d even: d*(m+2) is even and m+2 odd
        let t = d / m;
        lemma_fundamental_div_mod(d, m);
        assert(d == m * t);
        // m*t*(m+2) = 2*m*q  => t*(m+2) = 2q => t even (m+2 odd)
        assert(t * (m + 2) == 2 * q) by (nonlinear_arith) requires d == m * t, d * (m + 2) == 2 * m * q, m >= 1;
        // t*(2k+3) = 2q  => t = 2q - t*(2k+2) = 2*(q - t*(k+1))
        assert(t == 2 * (q - t * (k + 1))) by (nonlinear_arith) requires t * (m + 2) == 2 * q, m == 2 * k + 1;
        assert(d == (q - t * (k + 1)) * n) by (nonlinear_arith) requires d == m * t, t == 2 * (q - t * (k + 1)), n == 2 * m;
        lemma_mod_multiples_basic(q - t * (k + 1), n);
    }
}

// walk is injective on indices closer than n
proof fn lemma_walk_injective(h: int, n: int, i: int, j: int)
    requires n >= 1, 0 <= i < j, j - i < n
    ensures walk(h, n, i) != walk(h, n, j)
{
    if walk(h, n, i) == walk(h, n, j) {
        let a = h % n + i * spec_jump(n);
        let b = h % n + j * spec_jump(n);
        lemma_sub_mod_noop(b, a, n);
        assert((b - a) % n == 0) by {
            lemma_mod_self_0(n);
            assert((b % n - a % n) == 0);
            lemma_small_mod(0nat, n as nat);
        }
        assert(b - a == (j - i) * spec_jump(n)) by (nonlinear_arith) requires a == h % n + i * spec_jump(n), b == h % n + j * spec_jump(n);
        lemma_jump_cancels(n, j - i);
        lemma_small_mod((j - i) as nat, n as nat);
    }
}


pub proof fn lemma_spec_dist_props(h: int, n: int, rf: int)
    requires 0 <= h < 65536, 0 <= n < 65536, 0 <= rf < 256
    ensures
        spec_dist(h, n, rf).len() == (if n == 0 || rf == 0 { 0 } else { min3(rf, n, 12) }),
        forall|i: int| 0 <= i < spec_dist(h, n, rf).len() ==> (#[trigger] spec_dist(h, n, rf)[i]) < n,
        spec_dist(h, n, rf).len() > 0 ==> spec_dist(h, n, rf)[0] == h % n,
        forall|i: int, j: int| 0 <= i < j < spec_dist(h, n, rf).len() ==> spec_dist(h, n, rf)[i] != spec_dist(h, n, rf)[j],
{
    if n != 0 && rf != 0 {
        let len = min3(rf, n, 12);
        assert forall|i: int| 0 <= i < len implies 0 <= #[trigger] walk(h, n, i) < n by { lemma_mod_bound(h % n + i * spec_jump(n), n); }
        assert(0 * spec_jump(n) == 0);
        lemma_mod_twice(h, n);
        assert forall|i: int, j: int| 0 <= i < j < len implies spec_dist(h, n, rf)[i] != spec_dist(h, n, rf)[j] by {
            lemma_walk_injective(h, n, i, j);
            lemma_mod_bound(h % n + i * spec_jump(n), n);
            lemma_mod_bound(h % n + j * spec_jump(n), n);
        }
    }
}
pub proof fn lemma_prefix(h: int, n: int, rf1: int, rf2: int)
    requires 0 <= rf1 <= rf2, n >= 0
    ensures spec_dist(h, n, rf1).len() <= spec_dist(h, n, rf2).len(),
            forall|i: int| 0 <= i < spec_dist(h, n, rf1).len() ==> spec_dist(h, n, rf1)[i] == spec_dist(h, n, rf2)[i],
{ }

//@item distribute_partition
}
fn main() {}
