// U06 (Kani rendering) — the real `distribute_partition` text against the real arrayvec crate.
// Loop bound 12 (MAX_REPLICATION_FACTOR) is a constant of the code; unwind(13) with unwinding
// assertions on makes this harness complete for the whole u16 x u16 x u8 input space.
#![allow(unused)]
use std::cmp;
use arrayvec::ArrayVec;

//@item MAX_REPLICATION_FACTOR
//@item PartitionHash
//@item PartitionId
//@item distribute_partition

#[cfg(kani)]
mod verif {
    use super::*;

    fn spec_jump(n: u32) -> u32 {
        if n <= 2 { 1 } else {
            let c = n / 2 + 1;
            if n % 2 == 0 && c % 2 == 0 { c + 1 } else { c }
        }
    }

    #[kani::proof]
    #[kani::unwind(13)]
    fn check_distribute_partition() {
        let h: u16 = kani::any();
        let n: u16 = kani::any();
        let rf: u8 = kani::any();
//@carve KF-C24-overflow         kani::assume(n == 0 || (n as u32 - 1 + spec_jump(n as u32)) <= 65535);
        let r = distribute_partition(h, n, rf);
        let expect = if n == 0 || rf == 0 { 0 } else { cmp::min(rf as usize, cmp::min(n as usize, 12)) };
        assert!(r.len() == expect, "length is min(rf, n, 12)");
        if expect > 0 {
            assert!(r[0] == h % n, "first element is hash mod n");
        }
        let mut i = 0;
        while i < r.len() {
            assert!(r[i] < n, "every id is below n");
            let mut j = 0;
            while j < i {
                assert!(r[j] != r[i], "ids are pairwise distinct");
                j += 1;
            }
            i += 1;
        }
        if rf > 0 {
            let r2 = distribute_partition(h, n, rf - 1);
            assert!(r2.len() <= r.len(), "smaller rf gives a prefix (length)");
            let mut i = 0;
            while i < r2.len() {
                assert!(r2[i] == r[i], "smaller rf gives a prefix (elements)");
                i += 1;
            }
        }
        kani::cover!(r.len() == 12, "reachable: full-length result");
    }
}
