// U06 (Kani rendering) — the real `distribute_partition` text against the real arrayvec crate.
// Loop bound 12 (MAX_REPLICATION_FACTOR) is a constant of the code; unwind(13) with unwinding
// assertions on makes these harnesses complete for the whole u16 x u16 x u8 input space.
#![allow(unused)]
use std::cmp;
use arrayvec::ArrayVec;

//@item MAX_REPLICATION_FACTOR
//@item PartitionHash
//@item PartitionId
//@item distribute_partition

#[cfg(kani)]
mod verif {
    use super::*;

    #[kani::proof]
    #[kani::unwind(13)]
    fn check_len_first() {
        let h: u16 = kani::any();
        let n: u16 = kani::any();
        let rf: u8 = kani::any();
        let r = distribute_partition(h, n, rf);
        let expect = if n == 0 || rf == 0 { 0 } else { cmp::min(rf as usize, cmp::min(n as usize, 12)) };
        assert!(r.len() == expect, "length is min(rf, n, 12)");
        if expect > 0 {
            assert!(r[0] == h % n, "first element is hash mod n");
        }
        kani::cover!(r.len() == 12, "reachable: full-length result");
    }

    #[kani::proof]
    #[kani::unwind(13)]
    fn check_bounds() {
        let h: u16 = kani::any();
        let n: u16 = kani::any();
        let rf: u8 = kani::any();
        let r = distribute_partition(h, n, rf);
        let i: usize = kani::any();
        kani::assume(i < r.len());
        assert!(r[i] < n, "every id is below n");
        kani::cover!(i == 11, "reachable: last index");
    }

    #[kani::proof]
    #[kani::unwind(13)]
    fn check_distinct() {
        let h: u16 = kani::any();
        let n: u16 = kani::any();
        let rf: u8 = kani::any();
        let r = distribute_partition(h, n, rf);
        let i: usize = kani::any();
        let j: usize = kani::any();
        kani::assume(i < j && j < r.len());
        assert!(r[i] != r[j], "ids are pairwise distinct");
        kani::cover!(j == 11, "reachable: last pair");
    }

    #[kani::proof]
    #[kani::unwind(13)]
    fn check_prefix() {
        let h: u16 = kani::any();
        let n: u16 = kani::any();
        let rf: u8 = kani::any();
        kani::assume(rf > 0);
        let r = distribute_partition(h, n, rf);
        let r2 = distribute_partition(h, n, rf - 1);
        assert!(r2.len() <= r.len(), "smaller rf gives a prefix (length)");
        let i: usize = kani::any();
        kani::assume(i < r2.len());
        assert!(r2[i] == r[i], "smaller rf gives a prefix (elements)");
        kani::cover!(r2.len() == 11, "reachable: long prefix");
    }
}
