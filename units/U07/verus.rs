// U07 (Verus) — TopologyManager::calculate_partition_replicas and the bucket-selection loops of
// calculate_assigned_partitions, proved against replica_nodes(b, N, rf) = { (b % N + k) % N | 0 <= k < min(rf, N) }
// for EVERY cluster size, bucket count, partition id and replication factor <= 12 (no bound).
use vstd::prelude::*;
use vstd::arithmetic::div_mod::*;
use std::collections::{HashMap, HashSet};
verus! {

broadcast use vstd::std_specs::hash::group_hash_axioms;

//@item MAX_REPLICATION_FACTOR
//@item PartitionId

// ---- environment (D4) ----
pub trait ClusterKey: Clone + Ord {}

#[verifier::external_body]
#[verifier::accept_recursive_types(T)]
pub struct ArrayVec<T, const CAP: usize> { inner: Vec<T> }
impl<T, const CAP: usize> View for ArrayVec<T, CAP> {
    type V = Seq<T>;
    uninterp spec fn view(&self) -> Seq<T>;
}
impl<T, const CAP: usize> ArrayVec<T, CAP> {
    #[verifier::external_body]
    pub fn new() -> (r: Self) ensures r@.len() == 0 { unimplemented!() }
    #[verifier::external_body]
    pub fn push(&mut self, v: T)
        requires old(self)@.len() < CAP
        ensures final(self)@ == old(self)@.push(v)
    { unimplemented!() }
}

// ---- spec ----
pub open spec fn min_int(a: int, b: int) -> int { if a <= b { a } else { b } }
pub open spec fn eff(rf: u8, n: usize) -> int { min_int(rf as int, n as int) }
/// the k-th replica node of bucket b
pub open spec fn replica_idx(b: int, n: int, k: int) -> int { (b % n + k) % n }
/// is `node` among the first `cnt` replica nodes of bucket b?
pub open spec fn among(node: int, b: int, n: int, cnt: int) -> bool { exists|k: int| 0 <= k < cnt && replica_idx(b, n, k) == node }
/// indices (in offset order) of the first `cnt` replica nodes of bucket b that are known
pub open spec fn known_replicas(b: int, n: int, dom: Set<usize>, cnt: int) -> Seq<usize>
    decreases cnt
{
    if cnt <= 0 { Seq::empty() } else {
        let prev = known_replicas(b, n, dom, cnt - 1);
        let idx = replica_idx(b, n, cnt - 1) as usize;
        if dom.contains(idx) { prev.push(idx) } else { prev }
    }
}

// ---- number theory: k -> (a + k) % n is injective on 0 <= k < n ----
pub proof fn lemma_offsets_distinct(a: int, n: int, i: int, j: int)
    requires n >= 1, 0 <= a, 0 <= i < j < n,
    ensures (a + i) % n != (a + j) % n,
{
    if (a + i) % n == (a + j) % n {
        lemma_mod_equivalence(a + j, a + i, n);
        assert(((a + j) - (a + i)) % n == 0);
        lemma_small_mod((j - i) as nat, n as nat);
    }
}
/// every listed index is a replica node, all are distinct, in strictly increasing offset order
pub proof fn lemma_known_replicas_props(b: int, n: int, dom: Set<usize>, cnt: int)
    requires n >= 1, b >= 0, 0 <= cnt <= n, n <= usize::MAX,
    ensures
        known_replicas(b, n, dom, cnt).len() <= cnt,
        forall|i: int| 0 <= i < known_replicas(b, n, dom, cnt).len() ==>
            dom.contains(#[trigger] known_replicas(b, n, dom, cnt)[i]) && among(known_replicas(b, n, dom, cnt)[i] as int, b, n, cnt),
        forall|i: int, j: int| 0 <= i < j < known_replicas(b, n, dom, cnt).len() ==> known_replicas(b, n, dom, cnt)[i] != known_replicas(b, n, dom, cnt)[j],
        // complete: every known replica node is listed
        forall|k: int| 0 <= k < cnt && dom.contains(replica_idx(b, n, k) as usize) ==> known_replicas(b, n, dom, cnt).contains(replica_idx(b, n, k) as usize),
        // all known  ==> exactly cnt entries
        (forall|x: usize| x < n ==> dom.contains(x)) ==> known_replicas(b, n, dom, cnt).len() == cnt,
    decreases cnt
{
    if cnt > 0 {
        lemma_known_replicas_props(b, n, dom, cnt - 1);
        let prev = known_replicas(b, n, dom, cnt - 1);
        let cur = known_replicas(b, n, dom, cnt);
        let idx = replica_idx(b, n, cnt - 1);
        lemma_mod_bound(b % n + (cnt - 1), n);
        lemma_mod_bound(b, n);
        assert(0 <= idx < n);
        assert forall|i: int| 0 <= i < cur.len() implies dom.contains(#[trigger] cur[i]) && among(cur[i] as int, b, n, cnt) by {
            if i < prev.len() {
                assert(cur[i] == prev[i]);
                assert(among(prev[i] as int, b, n, cnt - 1));
                let k = choose|k: int| 0 <= k < cnt - 1 && replica_idx(b, n, k) == prev[i] as int;
                assert(0 <= k < cnt && replica_idx(b, n, k) == cur[i] as int);
            } else {
                assert(cur[i] == idx as usize);
                assert(0 <= cnt - 1 < cnt && replica_idx(b, n, cnt - 1) == idx);
            }
        }
        assert forall|i: int, j: int| 0 <= i < j < cur.len() implies cur[i] != cur[j] by {
            if j == prev.len() && dom.contains(idx as usize) {
                // cur[j] is the new index; cur[i] = prev[i] is replica_idx(k) for some k < cnt-1
                assert(cur[i] == prev[i]);
                let k = choose|k: int| 0 <= k < cnt - 1 && replica_idx(b, n, k) == prev[i] as int;
                lemma_offsets_distinct(b % n, n, k, cnt - 1);
            } else {
                assert(cur[i] == prev[i] && cur[j] == prev[j]);
            }
        }
        assert forall|k: int| 0 <= k < cnt && dom.contains(replica_idx(b, n, k) as usize) implies cur.contains(replica_idx(b, n, k) as usize) by {
            if k < cnt - 1 {
                assert(prev.contains(replica_idx(b, n, k) as usize));
                let w = choose|w: int| 0 <= w < prev.len() && prev[w] == replica_idx(b, n, k) as usize;
                assert(cur[w] == prev[w]);
            } else {
                assert(cur[cur.len() - 1] == idx as usize);
            }
        }
    }
}

pub proof fn lemma_known_replicas_empty(b: int, n: int, dom: Set<usize>, cnt: int)
    requires forall|x: usize| !dom.contains(x),
    ensures known_replicas(b, n, dom, cnt).len() == 0,
    decreases cnt
{
    if cnt > 0 { lemma_known_replicas_empty(b, n, dom, cnt - 1); }
}

//@item TopologyManager
//@item TopologyManager::calculate_partition_replicas
//@item TopologyManager::calculate_assigned_partitions

}
fn main() {}
