// U02 (Kani) — the seglog crate: parse.rs, read.rs (Reader, ReadAheadBuf, Iter) and write.rs (Writer) extracted verbatim and
// compiled against the environment of /verif/shims/seglog_env.rs (one shared in-memory disk, BufWriter/FileExt/crc32/zstd models).
// K1: buffer-size constants are scaled (READ_AHEAD_SIZE 8, PAGE_SIZE 4, OPTIMISTIC_DATA_SIZE 2, WRITE_BUF_SIZE 8,
// MIN_COMPRESSION_SIZE 4) so that small records still cross every buffer boundary. All harnesses: bounded, scaled-constants.
#![allow(unused, dead_code, static_mut_refs)]
//@include shims/seglog_env.rs DISK=72
use env::{BufWriter, File, OpenOptions, SeekFrom, DISK, DISK_SIZE};
use std::borrow::Cow;
use std::mem;
use std::path::Path;
use std::sync::Arc;
use std::sync::atomic::{AtomicU64, Ordering};
use self::read::{ReadError, ReadHint, Reader, is_truncation_marker};
use self::write::{WriteError, Writer};
use self::parse::parse_record;

//@item LEN_SIZE
//@item CRC32C_SIZE
//@item RECORD_HEAD_SIZE
//@item COMPRESSION_FLAG
//@item LENGTH_MASK
//@item MIN_COMPRESSION_SIZE
//@item ZSTD_COMPRESSION_LEVEL
//@item FlushedOffset
//@item FlushedOffset::new
//@item FlushedOffset::set
//@item FlushedOffset::load
//@item calculate_crc32c

pub mod parse {
    use super::*;
    // parse.rs spells `std::io::Error` in full: a local `std` whose `io` is the model
    mod std { pub use ::std::*; pub use crate::io; }
//@item parse_record
}

pub mod read {
    use super::*;
//@item PAGE_SIZE
//@item OPTIMISTIC_DATA_SIZE
//@item FALLBACK_BUF_SIZE
//@item READ_AHEAD_SIZE
//@item Record
//@item ReadError
//@item ReadHint
//@item Reader
//@item Reader::open
//@item Reader::iter
//@item Reader::read_record
//@item Reader::read_record_sequential
//@item Reader::read_bytes
//@item Reader::replace_header
//@item Reader::replace_header_with
//@item IterResult
//@item Iter
//@item Iter::next_record
//@item ReadAheadBuf
//@item ReadAheadBuf::new
//@item ReadAheadBuf::overlaps
//@item ReadAheadBuf::invalidate
//@item ReadAheadBuf::read
//@item ReadAheadBuf::fill
//@item is_truncation_marker
    // thiserror's #[from] conversions (derive dropped by D1)
    impl From<io::Error> for ReadError { fn from(e: io::Error) -> Self { ReadError::Io(e) } }
}

pub mod write {
    use super::*;
//@item WRITE_BUF_SIZE
//@item WriteError
//@item Writer
//@item Writer::open
//@item Writer::enable_compression
//@item Writer::disable_compression
//@item Writer::flushed_offset
//@item Writer::append
//@item Writer::write_offset
//@item Writer::remaining_bytes
//@item Writer::set_len
//@item Writer::flush_writer
//@item Writer::sync
//@item Writer::prepare_data
    impl From<io::Error> for WriteError { fn from(e: io::Error) -> Self { WriteError::Io(e) } }
    impl From<ReadError> for WriteError { fn from(e: ReadError) -> Self { WriteError::Read(e) } }
}

#[cfg(kani)]
mod verif {
    use super::*;
    use super::read::*;
    use super::write::*;

    const START: u64 = 8;

    fn crc_model(len_bytes: &[u8; 4], header: &[u8], data: &[u8]) -> u32 {
        let mut h = crc32fast::Hasher::new();
        h.update(len_bytes); h.update(header); h.update(data);
        h.finalize()
    }
    fn new_writer(size: usize, start: u64) -> Writer<1> {
        let mut w = BufWriter::with_capacity(WRITE_BUF_SIZE, File);
        w.seek(SeekFrom::Start(start)).unwrap();
        Writer { writer: w, size, write_offset: start, flushed_offset: FlushedOffset::new(start), dirty: false, compression_enabled: false }
    }
    fn new_reader(fo: FlushedOffset) -> Reader<1> { Reader::<1>::open("seg", Some(fo)).unwrap() }
    fn zero_disk() { unsafe { DISK = [0u8; DISK_SIZE]; } }

    /// parse_record on ARBITRARY bytes (all bit patterns of a 28-byte buffer, any length <= 28, any offset): never panics;
    /// Ok => the CRC gate holds over exactly the bytes returned, layout as documented; each Err kind only for its documented reason.
    #[kani::proof]
    #[kani::unwind(22)]
    fn sl_parse_record_any_bytes() {
        let buf: [u8; 20] = kani::any();
        let len: usize = 20;
        let off: usize = if kani::any() { 2 } else { 13 };
        let bytes = &buf[..len];
        let r = parse_record::<1>(bytes, off);
        let have_head = off + 8 <= len;
        kani::cover!(matches!(r, Ok(_)), "reachable: a record is accepted");
        kani::cover!(matches!(r, Err(ReadError::Crc32cMismatch { .. })), "reachable: a record is rejected");
        match r {
            Ok((h, d, n)) => {
                assert!(have_head);
                let lb: [u8; 4] = [bytes[off], bytes[off + 1], bytes[off + 2], bytes[off + 3]];
                let lw = u32::from_le_bytes(lb);
                let payload_len = (lw & LENGTH_MASK) as usize;
                assert!(n == 8 + payload_len && off + n <= len, "consumed length is head + payload and lies inside the buffer");
                assert!(payload_len >= 1, "a valid record carries its H-byte header");
                assert!(h[0] == bytes[off + 8], "header bytes are the bytes after the record head");
                let stored = &bytes[off + 9..off + n];
                let crc = u32::from_le_bytes([bytes[off + 4], bytes[off + 5], bytes[off + 6], bytes[off + 7]]);
                assert!(crc == crc_model(&lb, &h, stored), "CRC gate: stored checksum covers length, header and stored data");
                assert!(!(lb == [0, 0, 0, 0] && crc == 0), "a truncation marker is never returned as a record");
                if lw & COMPRESSION_FLAG == 0 {
                    assert!(d.len() == stored.len());
                    let i: usize = kani::any();
                    if i < stored.len() { assert!(d[i] == stored[i], "uncompressed data is returned byte-identical"); }
                } else {
                    assert!(stored.len() >= 5 && ((stored[4] == 0x5A && d.len() == stored.len() - 5) || (stored.len() == 6 && stored[4] & 0x80 != 0 && d.len() == (stored[4] & 0x7F) as usize)), "compressed data decodes through the codec");
                }
            }
            Err(ReadError::OutOfBounds { .. }) => {
                if have_head {
                    let lw = u32::from_le_bytes([bytes[off], bytes[off + 1], bytes[off + 2], bytes[off + 3]]);
                    assert!(off + 8 + (lw & LENGTH_MASK) as usize > len, "OutOfBounds only when the record does not fit");
                }
            }
            Err(ReadError::TruncationMarker { .. }) => {
                assert!(have_head);
                let i: usize = kani::any();
                if i < 8 { assert!(bytes[off + i] == 0, "TruncationMarker only for an all-zero record head"); }
            }
            Err(ReadError::Crc32cMismatch { .. }) => {
                assert!(have_head);
                // complete: a well-formed uncompressed record is never rejected
                let lb: [u8; 4] = [bytes[off], bytes[off + 1], bytes[off + 2], bytes[off + 3]];
                let lw = u32::from_le_bytes(lb);
                let pl = (lw & LENGTH_MASK) as usize;
                if pl >= 1 && off + 8 + pl <= len {
                    let crc = u32::from_le_bytes([bytes[off + 4], bytes[off + 5], bytes[off + 6], bytes[off + 7]]);
                    assert!(crc != crc_model(&lb, &bytes[off + 8..off + 9], &bytes[off + 9..off + 8 + pl]), "a record whose checksum matches is never reported as corrupt");
                }
            }
            Err(ReadError::Io(_)) => { assert!(have_head, "codec errors only for compressed records that passed the CRC gate"); }
            Err(ReadError::ReplaceLengthMismatch { .. }) => { assert!(false, "never produced by parsing"); }
        }
    }

    struct Appended<const DL: usize> { off: u64, n: usize, header: [u8; 1], data: [u8; DL] }
    /// appends one record with symbolic header and symbolic data of exactly DL bytes (all contents)
    fn append_any<const DL: usize>(w: &mut Writer<1>) -> Appended<DL> {
        let header: [u8; 1] = kani::any();
        let data: [u8; DL] = kani::any();
        let (off, n) = match w.append(&header, &data[..]) { Ok(x) => x, Err(_) => { assert!(false, "append failed on a healthy disk with room"); loop {} } };
        Appended { off, n, header, data }
    }
    fn same_bytes(a: &[u8], b: &[u8]) -> bool {
        if a.len() != b.len() { return false; }
        let mut i = 0;
        while i < a.len() { if a[i] != b[i] { return false; } i += 1; }
        true
    }
    fn check_record<const DL: usize>(r: &Record<'_, 1>, a: &Appended<DL>) {
        assert!(r.offset == a.off && r.len == a.n, "record is reported at the offset and with the length append returned");
        assert!(r.header.len() == 1 && r.header[0] == a.header[0], "header returned byte-identical");
        assert!(same_bytes(&r.data, &a.data[..]), "data returned byte-identical");
    }
    fn ok<T, E>(r: Result<T, E>) -> T { match r { Ok(v) => v, Err(_) => { assert!(false, "unexpected error on a healthy disk"); loop {} } } }

    /// Round trip over every read path: a record (any header, any data of DL bytes, compression COMP), preceded by a record of PL
    /// data bytes that positions it relative to the read buffers, is returned byte-identical by random reads, sequential reads,
    /// iteration and parse_record.
    fn roundtrip<const PL: usize, const DL: usize, const COMP: bool>() {
        zero_disk();
        let mut w = new_writer(60, START);
        if COMP { w.enable_compression(); }
        let p = append_any::<PL>(&mut w);
        assert!(p.off == START);
        let a = append_any::<DL>(&mut w);
        assert!(a.off == START + p.n as u64, "records are laid out back to back");
        let stored = if COMP && DL >= MIN_COMPRESSION_SIZE { 4 + zstd::MODEL_ZSTD_OVERHEAD + DL } else { DL };
        assert!(a.n == RECORD_HEAD_SIZE + 1 + stored);
        let end = ok(w.sync());
        assert!(end == a.off + a.n as u64 && w.flushed_offset().load() == end, "sync publishes exactly the written length");
        let mut r = new_reader(w.flushed_offset());
        { let rec = ok(r.read_record(a.off, ReadHint::Random)); check_record(&rec, &a); }
        { let rec = ok(r.read_record(a.off, ReadHint::Sequential)); check_record(&rec, &a); }
        {
            let mut it = r.iter(START);
            let first = ok(it.next_record()).unwrap();
            check_record(&first, &p);
            let second = ok(it.next_record()).unwrap();
            check_record(&second, &a);
            assert!(ok(it.next_record()).is_none(), "iteration ends at the flushed offset");
        }
        let disk = unsafe { &DISK[..] };
        let (h, d, n) = ok(parse_record::<1>(disk, a.off as usize));
        assert!(h == a.header && n == a.n && same_bytes(&d, &a.data[..]), "parse_record agrees");
    }
    // payload = 1 + stored: <= 2 optimistic buffer, 3..=4 fallback buffer, > 4 allocated (scaled constants)
    #[kani::proof] #[kani::unwind(18)] fn sl_roundtrip_optimistic() { roundtrip::<0, 1, false>(); }
    #[kani::proof] #[kani::unwind(18)] fn sl_roundtrip_fallback_crossing_window() { roundtrip::<1, 3, false>(); }
    #[kani::proof] #[kani::unwind(18)] fn sl_roundtrip_large() { roundtrip::<2, 5, false>(); }
    #[kani::proof] #[kani::unwind(18)] fn sl_roundtrip_compressed() { roundtrip::<1, 4, true>(); }
    #[kani::proof] #[kani::unwind(18)] fn sl_roundtrip_empty_data() { roundtrip::<2, 0, true>(); }

    /// Corruption: ONE byte of a written record (any position: length, CRC, header, data) is overwritten with any other value.
    /// No read path panics; an Ok result satisfies the CRC gate over exactly the bytes it returns; a changed CRC, header or data byte
    /// is always reported as an error (length-field corruption is only subject to the gate).
    fn corruption<const DL: usize, const COMP: bool>() {
        zero_disk();
        let mut w = new_writer(60, START);
        if COMP { w.enable_compression(); }
        let a = append_any::<DL>(&mut w);
        ok(w.sync());
        let pos: usize = kani::any();
        let val: u8 = kani::any();
        kani::assume(pos < a.n);
        let at = a.off as usize + pos;
        unsafe { kani::assume(DISK[at] != val); DISK[at] = val; }
        let mut r = new_reader(w.flushed_offset());
        let hint = if kani::any() { ReadHint::Random } else { ReadHint::Sequential };
        let o = a.off as usize;
        let disk_len: [u8; 4] = unsafe { [DISK[o], DISK[o + 1], DISK[o + 2], DISK[o + 3]] };
        let disk_crc = unsafe { u32::from_le_bytes([DISK[o + 4], DISK[o + 5], DISK[o + 6], DISK[o + 7]]) };
        match r.read_record(a.off, hint) {
            Ok(rec) => {
                assert!(pos < 4, "a corrupted CRC, header or data byte is never returned as valid data");
                let stored: &[u8] = match &rec.compressed_data { Some(c) => c, None => &rec.data };
                assert!(disk_crc == crc_model(&disk_len, &rec.header, stored), "CRC gate over exactly the bytes returned");
            }
            Err(_) => {}
        }
    }
    #[kani::proof] #[kani::unwind(18)] fn sl_corruption_small() { corruption::<2, false>(); }
    #[kani::proof] #[kani::unwind(18)] fn sl_corruption_large_compressed() { corruption::<5, true>(); }

    /// Recovery: two records are appended and synced, then the bytes after them are arbitrary (a torn third record, garbage or
    /// zeros) and one byte of the second record may be corrupted. A reopened writer resumes exactly after the last record that
    /// parse_record accepts, with flushed offset and file cursor at that offset.
    #[kani::proof]
    #[kani::unwind(18)]
    fn sl_open_resumes_after_last_intact_record() {
        zero_disk();
        let mut w = new_writer(60, START);
        let a = append_any::<1>(&mut w);
        let b = append_any::<2>(&mut w);
        let end = ok(w.sync()) as usize;
        let tail: [u8; 10] = kani::any();
        unsafe { DISK[end..end + 10].copy_from_slice(&tail); }
        if kani::any() {
            let pos: usize = kani::any();
            kani::assume(pos < b.n);
            unsafe { DISK[b.off as usize + pos] = kani::any(); }
        }
        // reference scan with parse_record (whose contract is proved by sl_parse_record_any_bytes)
        let mut expect = START as usize;
        let mut k = 0;
        while k < 4 {
            match parse_record::<1>(unsafe { &DISK[..] }, expect) { Ok((_, _, n)) => expect += n, Err(_) => break }
            k += 1;
        }
        kani::assume(k < 4);
        let w2 = ok(Writer::<1>::open("seg", 60, START));
        assert!(w2.write_offset() == expect as u64, "a reopened writer resumes right after the last intact record");
        assert!(expect as u64 >= a.off + a.n as u64, "every synced intact record is kept");
        assert!(w2.flushed_offset().load() == expect as u64 && w2.writer.pos == expect as u64 && w2.writer.buffered() == 0, "flushed offset and file cursor agree with the write offset");
    }

    /// C18: a long-lived reader whose read-ahead buffer was filled BEFORE later data was flushed still returns exactly the record
    /// written there, on every path; and never returns bytes beyond the flushed offset.
    #[kani::proof]
    #[kani::unwind(18)]
    fn sl_reader_never_serves_stale_or_unflushed() {
        zero_disk();
        let mut w = new_writer(60, START);
        let mut r = new_reader(w.flushed_offset());
        let a = append_any::<1>(&mut w);
        // not yet synced: nothing is readable
        assert!(matches!(r.read_record(a.off, ReadHint::Sequential), Err(ReadError::OutOfBounds { .. })), "no read beyond the flushed offset");
        assert!(matches!(r.read_record(a.off, ReadHint::Random), Err(ReadError::OutOfBounds { .. })));
        ok(w.sync());
        { let rec = ok(r.read_record(a.off, ReadHint::Sequential)); check_record(&rec, &a); }
        let b = append_any::<2>(&mut w);
        // flushed to the OS but not published: still out of bounds for readers
        ok(w.flush_writer());
        assert!(matches!(r.read_record(b.off, ReadHint::Sequential), Err(ReadError::OutOfBounds { .. })), "flushed-but-unpublished bytes are not served");
        ok(w.sync());
        { let rec = ok(r.read_record(b.off, ReadHint::Sequential)); check_record(&rec, &b); }
        { let rec = ok(r.read_record(a.off, ReadHint::Sequential)); check_record(&rec, &a); }
        {
            let mut it = r.iter(START);
            let x = ok(it.next_record()).unwrap(); check_record(&x, &a);
            let y = ok(it.next_record()).unwrap(); check_record(&y, &b);
            assert!(ok(it.next_record()).is_none());
        }
    }

    /// C01/C18: truncation after a failed write. Two records, set_len back to the second one's offset (synced or not), then a new
    /// append: it is reported at the truncated offset AND physically lands there, so reads return it; the first record survives.
    #[kani::proof]
    #[kani::unwind(18)]
    fn sl_set_len_then_append_lands_at_reported_offset() {
        zero_disk();
        let mut w = new_writer(60, START);
        let mut r = new_reader(w.flushed_offset());
        let a = append_any::<1>(&mut w);
        if kani::any() { ok(w.sync()); }
        let b = append_any::<2>(&mut w);
        if kani::any() { ok(w.sync()); }
        ok(w.set_len(b.off));
        assert!(w.write_offset() == b.off && w.flushed_offset().load() <= b.off, "truncation lowers write and flushed offsets");
        let c = append_any::<3>(&mut w);
        assert!(c.off == b.off, "the next record is reported at the truncated offset");
        let end = ok(w.sync());
        assert!(end == c.off + c.n as u64);
        { let rec = ok(r.read_record(c.off, ReadHint::Random)); check_record(&rec, &c); }
        { let rec = ok(r.read_record(a.off, ReadHint::Random)); check_record(&rec, &a); }
        { let rec = ok(r.read_record(c.off, ReadHint::Sequential)); check_record(&rec, &c); }
        // set_len beyond the write offset is a no-op
        let wo = w.write_offset();
        ok(w.set_len(wo + 5));
        assert!(w.write_offset() == wo);
    }

    /// C19 core + C01: append over an ARBITRARY writer position: SegmentFull exactly when the stored record does not fit, otherwise
    /// Ok at the old write offset with length head + H + stored length; a refused append changes neither offset.
    fn append_fits<const DL: usize, const COMP: bool>() {
        zero_disk();
        let size: usize = kani::any();
        let wo: u64 = kani::any();
        kani::assume(size <= 60 && wo >= START && (wo as usize) < size);
        let mut w = new_writer(size, wo);
        if COMP { w.enable_compression(); }
        let header: [u8; 1] = kani::any();
        let data: [u8; DL] = kani::any();
        let stored = if COMP && DL >= MIN_COMPRESSION_SIZE { 4 + zstd::MODEL_ZSTD_OVERHEAD + DL } else { DL };
        let need = RECORD_HEAD_SIZE + 1 + stored;
        match w.append(&header, &data[..]) {
            Ok((o, n)) => {
                assert!(wo as usize + need <= size, "accepted only if the stored record fits");
                assert!(o == wo && n == need && w.write_offset() == wo + need as u64);
            }
            Err(WriteError::SegmentFull { .. }) => {
                assert!(wo as usize + need > size, "a record whose stored size fits is never refused for lack of space");
                assert!(w.write_offset() == wo && w.flushed_offset().load() == wo, "a refused append changes nothing");
            }
            Err(_) => { assert!(false, "no other error on a healthy disk"); }
        }
    }
    #[kani::proof] #[kani::unwind(18)] fn sl_append_fits_plain() { append_fits::<3, false>(); }
    #[kani::proof] #[kani::unwind(18)] fn sl_append_fits_compressed() { append_fits::<5, true>(); }

    // ------------------------------------------------------------------------------------------------------------------
    // Modular part: one harness per method over an ARBITRARY state satisfying the representation invariant (inductive step).

    /// wf(w): cursor alignment (file cursor + buffered bytes == logical write offset), offsets ordered, clean => nothing buffered
    /// and everything published.
    fn wf(w: &Writer<1>) -> bool {
        let pos = w.writer.pos; let bl = w.writer.buffered() as u64; let fl = w.flushed_offset.load();
        pos + bl == w.write_offset && START <= fl && fl <= pos && w.write_offset <= w.size as u64 && w.size <= DISK_SIZE
            && (w.dirty || (bl == 0 && fl == w.write_offset)) && w.writer.buffered() <= w.writer.cap
    }
    fn any_wf_writer() -> Writer<1> {
        let size: usize = kani::any();
        let wo: u64 = kani::any();
        let bl: usize = kani::any();
        let fl: u64 = kani::any();
        let dirty: bool = kani::any();
        kani::assume(size <= 60 && START <= wo && wo as usize <= size && bl <= WRITE_BUF_SIZE && (bl as u64) <= wo - START);
        let pos = wo - bl as u64;
        kani::assume(START <= fl && fl <= pos && (dirty || (bl == 0 && fl == wo)));
        let mut bw = BufWriter::with_capacity(WRITE_BUF_SIZE, File);
        bw.buf = kani::any();
        bw.len = bl;
        bw.pos = pos;
        Writer { writer: bw, size, write_offset: wo, flushed_offset: FlushedOffset::new(fl), dirty, compression_enabled: kani::any() }
    }
    /// the logical file content: what the disk will hold once the buffered bytes are flushed
    fn logical(w: &Writer<1>, disk: &[u8; DISK_SIZE], i: usize) -> u8 {
        let pos = w.writer.pos as usize;
        if i >= pos && i < pos + w.writer.buffered() { w.writer.buf[i - pos] } else { disk[i] }
    }

    #[kani::proof]
    #[kani::unwind(12)]
    fn wr_set_len_keeps_cursor_aligned() {
        unsafe { DISK = kani::any(); }
        let mut w = any_wf_writer();
        let old_disk = unsafe { DISK };
        let old_wo = w.write_offset;
        let i: usize = kani::any();
        kani::assume(i < DISK_SIZE);
        let before_i = logical(&w, &old_disk, i);
        let o: u64 = kani::any();
        kani::assume(o >= START); // callers truncate to record offsets, which lie at or after the start offset
        kani::cover!(o < old_wo && w.writer.buffered() > 0, "reachable: truncation with buffered bytes");
        ok(w.set_len(o));
        assert!(wf(&w), "after set_len the file cursor is aligned with the logical write offset (the next append lands where it is reported)");
        if o >= old_wo {
            assert!(w.write_offset == old_wo, "truncation beyond the end is a no-op");
        } else {
            assert!(w.write_offset == o && w.flushed_offset.load() == o && w.writer.buffered() == 0, "write and flushed offsets are lowered to the truncation point");
            if (i as u64) < o { assert!(unsafe { DISK[i] } == before_i, "bytes below the truncation point are kept"); }
            if (i as u64) >= o && (i as u64) < o + 8 && o as usize + 8 <= DISK_SIZE { assert!(unsafe { DISK[i] } == 0, "a truncation marker is written at the truncation point"); }
        }
    }

    #[kani::proof]
    #[kani::unwind(12)]
    fn wr_sync_publishes_after_flush_and_fsync() {
        unsafe { DISK = kani::any(); env::SYNCS = 0; }
        let mut w = any_wf_writer();
        let old_disk = unsafe { DISK };
        let was_dirty = w.dirty;
        let old_fl = w.flushed_offset.load();
        let i: usize = kani::any();
        kani::assume(i < DISK_SIZE);
        let before_i = logical(&w, &old_disk, i);
        let wo = w.write_offset;
        unsafe { env::PUB_PTR = std::sync::Arc::as_ptr(&w.flushed_offset.0); env::PUB_AT_LAST_WRITE = old_fl; env::PUB_AT_LAST_SYNC = old_fl; }
        let buffered_before = w.writer.buffered();
        kani::cover!(was_dirty && buffered_before > 0 && old_fl < wo, "reachable: dirty writer with buffered, unpublished bytes");
        let r = ok(w.sync());
        unsafe { env::PUB_PTR = std::ptr::null(); }
        assert!(r == wo && w.write_offset == wo, "sync returns the write offset");
        if was_dirty {
            assert!(unsafe { env::PUB_AT_LAST_SYNC } == old_fl, "nothing new is published before sync_data has returned (ack only after fsync)");
            if buffered_before > 0 { assert!(unsafe { env::PUB_AT_LAST_WRITE } == old_fl, "nothing new is published before the buffered bytes reached the file"); }
        }
        assert!(wf(&w) && !w.dirty && w.writer.buffered() == 0 && w.flushed_offset.load() == wo, "after sync everything written is on disk and published");
        assert!(unsafe { DISK[i] } == before_i, "sync writes exactly the buffered bytes at the cursor");
        if was_dirty || old_fl != wo { assert!(unsafe { env::SYNCS } >= 1, "the flushed offset is only advanced after sync_data"); }
    }

    fn append_step<const DL: usize>() {
        unsafe { DISK = kani::any(); }
        let mut w = any_wf_writer();
        kani::assume(!w.compression_enabled || DL < MIN_COMPRESSION_SIZE);
        let old_disk = unsafe { DISK };
        let (old_wo, old_fl) = (w.write_offset, w.flushed_offset.load());
        let i: usize = kani::any();
        kani::assume(i < DISK_SIZE);
        let before_i = logical(&w, &old_disk, i);
        let header: [u8; 1] = kani::any();
        let data: [u8; DL] = kani::any();
        let need = RECORD_HEAD_SIZE + 1 + DL;
        kani::cover!(old_wo as usize + need == w.size && w.writer.buffered() > 0, "reachable: exact fit with buffered bytes");
        kani::cover!(old_wo as usize + need > w.size, "reachable: does not fit");
        match w.append(&header, &data[..]) {
            Ok((o, n)) => {
                assert!(o == old_wo && n == need && w.write_offset == old_wo + need as u64 && old_wo as usize + need <= w.size, "appended at the old write offset, only if it fits");
                assert!(wf(&w) && w.dirty && w.flushed_offset.load() == old_fl, "an append keeps the cursor aligned and publishes nothing");
                ok(w.flush_writer());
                assert!(wf(&w));
                let now_i = unsafe { DISK[i] };
                let k = i as u64;
                if k < old_wo || k >= old_wo + need as u64 { assert!(now_i == before_i, "an append touches only its own record"); }
                else {
                    let lb = (1u32 + DL as u32).to_le_bytes();
                    let crc = crc_model(&lb, &header, &data[..]).to_le_bytes();
                    let j = (k - old_wo) as usize;
                    let expect = if j < 4 { lb[j] } else if j < 8 { crc[j - 4] } else if j == 8 { header[0] } else { data[j - 9] };
                    assert!(now_i == expect, "the record bytes are length, checksum, header, data at the reported offset");
                }
            }
            Err(WriteError::SegmentFull { .. }) => {
                assert!(old_wo as usize + need > w.size, "a record that fits is never refused");
                assert!(wf(&w) && w.write_offset == old_wo && w.flushed_offset.load() == old_fl, "a refused append changes nothing");
            }
            Err(_) => { assert!(false, "no other error on a healthy disk"); }
        }
    }
    /// C19 at the seglog layer, compression ON or OFF, compressible and incompressible data: an append is refused for lack of
    /// space only if the UNCOMPRESSED record does not fit (the size callers budget for); a stored record never exceeds it.
    fn append_never_refused<const DL: usize, const RUN: bool, const COMP: bool>() {
        unsafe { DISK = [0u8; DISK_SIZE]; }
        // the space check reads only the write offset and the segment size: a writer with an empty buffer at ANY offset
        let size: usize = DISK_SIZE;
        let start: u64 = kani::any();
        kani::assume(START <= start && start as usize <= size);
        let mut w = new_writer(size, start);
        w.compression_enabled = COMP;
        let (old_wo, old_fl) = (w.write_offset, w.flushed_offset.load());
        let header: [u8; 1] = kani::any();
        // compressible (a run of one byte) or incompressible (any bytes that are not a run): one harness each, so that the
        // stored length is concrete per harness
        let data: [u8; DL] = if RUN { [kani::any(); DL] } else { let d: [u8; DL] = kani::any(); kani::assume(d[0] != d[1]); d };
        let need = RECORD_HEAD_SIZE + 1 + DL;
        let is_run = RUN;
        kani::cover!(old_wo as usize + need == w.size, "reachable: data that fits exactly");
        kani::cover!(old_wo as usize + need > w.size, "reachable: data whose plain form does not fit");
        match w.append(&header, &data[..]) {
            Ok((o, n)) => {
                assert!(o == old_wo && n <= need && w.write_offset == old_wo + n as u64 && w.write_offset as usize <= w.size, "stored at the old write offset, never larger than the uncompressed record");
                assert!(wf(&w) && w.dirty && w.flushed_offset.load() == old_fl, "an append keeps the cursor aligned and publishes nothing");
            }
            Err(WriteError::SegmentFull { .. }) => {
                assert!(old_wo as usize + need > w.size, "a record whose uncompressed form fits is never refused for lack of space");
                assert!(wf(&w) && w.write_offset == old_wo && w.flushed_offset.load() == old_fl, "a refused append changes nothing");
            }
            Err(_) => { assert!(false, "no other error on a healthy disk"); }
        }
    }
    #[kani::proof] #[kani::unwind(16)] fn wr_append_never_refused_incompressible() { append_never_refused::<7, false, true>(); }
    #[kani::proof] #[kani::unwind(16)] fn wr_append_never_refused_compressible() { append_never_refused::<7, true, true>(); }
    #[kani::proof] #[kani::unwind(16)] fn wr_append_never_refused_compression_off() { append_never_refused::<7, false, false>(); }
    #[kani::proof] #[kani::unwind(12)] fn wr_append_step_small() { append_step::<2>(); }
    #[kani::proof] #[kani::unwind(18)] fn wr_append_step_write_through() { append_step::<8>(); }

    /// Read-ahead buffer, one call over an arbitrary cache state: inv = the cache holds only bytes below the flushed offset
    /// that was loaded when it was filled, and they equal the disk. Since bytes below the flushed offset are immutable (writer
    /// contract above), a cache hit can never be stale; a miss refills and re-establishes inv.
    fn rab_inv(b: &ReadAheadBuf, flushed: u64) -> bool {
        b.valid_len <= b.buf.len() && b.offset + b.valid_len as u64 <= flushed && (b.buf.len() == 0 || b.buf.len() == 8 || b.buf.len() == 12) && b.offset % 8 == 0
    }
    #[kani::proof]
    #[kani::unwind(18)]
    fn rab_read_serves_exactly_the_flushed_disk_bytes() {
        unsafe { DISK = kani::any(); }
        let flushed: u64 = kani::any();
        kani::assume(flushed <= 60);
        let mut b = ReadAheadBuf::new();
        let filled: bool = kani::any();
        if filled {
            // an arbitrary earlier fill
            let blen: usize = if kani::any() { 8 } else { 12 };
            b.buf.resize(blen, 0);
            b.offset = if kani::any() { 0 } else if kani::any() { 8 } else { 24 };
            b.valid_len = kani::any();
            kani::assume(rab_inv(&b, flushed));
            let mut k = 0;
            while k < b.valid_len { b.buf[k] = unsafe { DISK[b.offset as usize + k] }; k += 1; }
        }
        let off: u64 = kani::any();
        let len: usize = kani::any();
        kani::assume(len <= 11 && off + len as u64 <= flushed);
        let j: usize = kani::any();
        kani::assume(j < len);
        let want = unsafe { DISK[off as usize + j] };
        match b.read(&File, off, len, flushed) {
            Ok(bytes) => { assert!(bytes.len() == len && bytes[j] == want, "bytes served (hit or refill) are the disk bytes at that offset"); }
            Err(_) => { assert!(false, "a request below the flushed offset is always served"); }
        }
        assert!(rab_inv(&b, flushed), "the cache never holds bytes at or beyond the flushed offset");
    }

    /// Reader paths, one call over ARBITRARY disk contents: read_record(off, hint) agrees with parse_record on the flushed prefix
    /// of the disk (same Ok values, Err exactly when parse_record errs) — so everything proved about parse_record (CRC gate, layout,
    /// no panic) carries over to the random path (optimistic / fallback / allocated buffers) and to the sequential path.
    fn reader_agrees_with_parse(hint: ReadHint) {
        let img: [u8; 40] = kani::any();
        unsafe { DISK = [0u8; DISK_SIZE]; DISK[..40].copy_from_slice(&img); }
        let flushed: u64 = kani::any();
        kani::assume(flushed <= 40);
        let off: u64 = if kani::any() { 8 } else { 13 };
        let mut r = new_reader(FlushedOffset::new(flushed));
        let got = r.read_record(off, hint);
        let want = parse_record::<1>(unsafe { &DISK[..flushed as usize] }, off as usize);
        match (got, want) {
            (Ok(rec), Ok((h, d, n))) => {
                assert!(rec.offset == off && rec.len == n && rec.header.len() == 1 && rec.header[0] == h[0], "same record");
                assert!(same_bytes(&rec.data, &d), "same data");
            }
            (Err(_), Err(_)) => {}
            (Ok(_), Err(_)) => { assert!(false, "the reader returned a record that parse_record rejects"); }
            (Err(_), Ok(_)) => { assert!(false, "the reader rejected a record that parse_record accepts"); }
        }
    }
    #[kani::proof] #[kani::unwind(34)] fn rd_random_agrees_with_parse() { reader_agrees_with_parse(ReadHint::Random); }
    #[kani::proof] #[kani::unwind(34)] fn rd_sequential_agrees_with_parse() { reader_agrees_with_parse(ReadHint::Sequential); }
}
