// U09 (Kani) — PartitionConfirmationState::update_confirmation and AtomicWatermark extracted verbatim, compiled
// against the model BTreeMap (D4), the real std Arc and atomics. R1: the wall clock is an arbitrary u64.
// Per-call contract over an ARBITRARY state (watermark, pending versions and counts full-range symbolic),
// bounded in the number of pending versions (<= 3); plus a bounded delivery-order harness.
#![allow(unused, dead_code)]
//@include shims/model_btreemap.rs
use std::sync::Arc;
use std::sync::atomic::{AtomicU64, Ordering};

#[cfg(kani)]
pub fn verif_any<T: kani::Arbitrary>() -> T { kani::any() }
#[cfg(not(kani))]
pub fn verif_any<T>() -> T { unimplemented!() }

//@item PartitionId
//@item UnconfirmedEventInfo
//@item PartitionConfirmationState
//@item PartitionConfirmationState::new
//@item PartitionConfirmationState::update_confirmation
//@item PartitionConfirmationState::confirmation_gap
//@item AtomicWatermark
//@item AtomicWatermark::new
//@item AtomicWatermark::get
//@item AtomicWatermark::can_read
//@item AtomicWatermark::advance

#[cfg(kani)]
mod verif {
    use super::*;

    fn quorum(rf: u8) -> u8 { rf / 2 + 1 }
    fn info(version: u64, count: u8) -> UnconfirmedEventInfo {
        UnconfirmedEventInfo { version, confirmation_count: count, first_seen: kani::any(), last_attempt: kani::any(), attempts: kani::any() }
    }
    /// arbitrary state: watermark w, n <= 2 pending versions above w (ascending), arbitrary counts
    struct Pre { w: u64, n: usize, k: [u64; 2], c: [u8; 2] }
    fn any_state() -> (PartitionConfirmationState, Pre) {
        let w: u64 = kani::any();
        kani::assume(w < u64::MAX - 8);
        let n: usize = kani::any();
        kani::assume(n <= 2);
        let k0: u64 = kani::any();
        let k1: u64 = kani::any();
        let (c0, c1): (u8, u8) = (kani::any(), kani::any());
        kani::assume(w < k0 && k0 < k1 && k1 < u64::MAX - 1);
        let slots = [
            if n > 0 { Some((k0, info(k0, c0))) } else { None },
            if n > 1 { Some((k1, info(k1, c1))) } else { None },
            None,
            None,
        ];
        let s = PartitionConfirmationState {
            partition_id: kani::any(),
            highest_version: kani::any(),
            confirmed_watermark: Arc::new(AtomicWatermark::new(w)),
            unconfirmed_events: BTreeMap { slots, n },
        };
        (s, Pre { w, n, k: [k0, k1], c: [c0, c1] })
    }
    fn count_of(m: &BTreeMap<u64, UnconfirmedEventInfo>, v: u64) -> Option<u8> { m.get(&v).map(|e| e.confirmation_count) }

    #[kani::proof]
    #[kani::unwind(5)]
    fn wm_update_per_call() {
        let (mut s, pre) = any_state();
        let w = pre.w;
        let old_highest = s.highest_version;
        let version: u64 = kani::any();
        let count: u8 = kani::any();
        let rf: u8 = kani::any();
        kani::assume(version < u64::MAX - 1);
        let q = quorum(rf);
        // representation invariant of reachable states (established by `new`, re-proved below for the post-state):
        // the watermark is maximal, i.e. version w+1 is not pending with a quorum count
        kani::assume(!(pre.n > 0 && pre.k[0] == w + 1 && pre.c[0] >= q));
        let r = s.update_confirmation(version, count, rf);
        let nw = s.confirmed_watermark.get();
        // the count the partition has been told for `v` so far (reports only ever raise it)
        let told = |v: u64| -> Option<u8> {
            let old = if pre.n > 0 && v == pre.k[0] { Some(pre.c[0]) } else if pre.n > 1 && v == pre.k[1] { Some(pre.c[1]) } else { None };
            if v == version && version > w { Some(core::cmp::max(old.unwrap_or(0), count)) } else { old }
        };
        assert!(nw >= w, "the watermark never decreases");
        assert!(r == (nw > w), "the return value says whether the watermark advanced");
        assert!(s.highest_version == core::cmp::max(old_highest, version));
        // sound: everything newly covered carries a quorum count
        let v: u64 = kani::any();
        if v > w && v <= nw {
            assert!(told(v).map(|c| c >= q).unwrap_or(false), "every version newly below the watermark was reported with a quorum count");
            assert!(count_of(&s.unconfirmed_events, v).is_none(), "versions at or below the watermark are dropped from the pending set");
        }
        // complete (per call): the watermark stops only at a version that is unknown or below quorum
        assert!(!told(nw + 1).map(|c| c >= q).unwrap_or(false), "the watermark is the LONGEST reported-quorum prefix");
        // frame: every other pending version keeps its count
        if v > nw {
            assert!(count_of(&s.unconfirmed_events, v) == told(v), "pending versions above the watermark keep the highest count reported");
        }
        kani::cover!(nw == w + 3, "reachable: advances over three versions");
    }

    /// Delivery order and duplicates: versions w+1..w+3, four deliveries chosen by the solver; at the end the
    /// watermark equals the longest prefix whose maximum delivered count reaches the quorum.
    #[kani::proof]
    #[kani::unwind(5)]
    fn wm_delivery_order_bounded() {
        let w: u64 = kani::any();
        kani::assume(w < 1000);
        let mut s = PartitionConfirmationState::new(kani::any());
        s.confirmed_watermark = Arc::new(AtomicWatermark::new(w));
        let rf: u8 = kani::any();
        kani::assume(rf == 3);
        let q = quorum(rf);
        let mut best = [0u8; 3];
        let mut last = w;
        let mut i = 0;
        while i < 3 {
            let d: u64 = kani::any();
            let c: u8 = kani::any();
            kani::assume(d < 3 && c <= rf);
            if c > best[d as usize] { best[d as usize] = c; }
            s.update_confirmation(w + 1 + d, c, rf);
            let now = s.confirmed_watermark.get();
            assert!(now >= last, "monotone along the history");
            last = now;
            i += 1;
        }
        let prefix = if best[0] < q { 0 } else if best[1] < q { 1 } else if best[2] < q { 2 } else { 3 };
        assert!(last == w + prefix, "any delivery order, duplicates and stale counts: watermark == longest quorum-confirmed prefix reported");
    }

    #[kani::proof]
    #[kani::unwind(3)]
    fn wm_atomic_cell() {
        let init: u64 = kani::any();
        let c = AtomicWatermark::new(init);
        assert!(c.get() == init);
        let s: u64 = kani::any();
        assert!(c.can_read(s) == (s < init), "can_read(s) <=> s below the watermark");
        let nv: u64 = kani::any();
        let r = c.advance(nv);
        assert!(c.get() == core::cmp::max(init, nv), "advance never lowers the cell");
        assert!(r == if nv > init { Some(init) } else { None });
    }
}
