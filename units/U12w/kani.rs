// U12w (Kani) — the writer thread's durability watermark (C01: "once an append returns success, the append was fsynced"):
// WriterSet::sync and WriterSet::rollover extracted verbatim and compiled against a shim environment (D4) in which the bucket
// segment writer is its proved seglog contract made executable (integers: write offset, flushed offset; `sync` publishes flushed ==
// write offset, units/U02), and the sync watch channel is a cell. Invariant wsinv: the value published on `sync_tx` (which
// appenders wait on before acknowledging: they are released as soon as value >= their write offset) never exceeds what is
// fsynced in the LIVE segment:  sync_tx.value <= writer.flushed <= writer.write_offset.
#![allow(unused, dead_code)]
use std::cell::{RefCell, RefMut};
use std::mem;
use std::path::PathBuf;
use std::sync::Arc;
use std::sync::atomic::{AtomicBool, AtomicU32, Ordering};

// ---------------- environment (D4) ----------------
pub type BucketId = u16;
pub type PartitionId = u16;
#[derive(Clone, Copy, Debug, PartialEq, Eq)]
pub struct Uuid(pub u8);
#[derive(Clone, Copy, Debug, PartialEq, Eq)]
pub struct StreamId(pub u8);
#[derive(Debug)]
pub enum WriteError { Io, EventsExceedSegmentSize }
#[derive(Clone, Copy, Debug, PartialEq, Eq)]
pub struct BucketSegmentId { pub bucket_id: BucketId, pub segment_id: u32 }
impl BucketSegmentId { pub fn increment_segment_id(&self) -> Self { BucketSegmentId { bucket_id: self.bucket_id, segment_id: self.segment_id + 1 } } }
pub enum SegmentKind { Events, EventIndex, PartitionIndex, StreamIndex }
impl SegmentKind {
    pub fn ensure_segment_dir(_d: &PathBuf, _id: BucketSegmentId) -> Result<(), WriteError> { Ok(()) }
    pub fn get_path(&self, _d: &PathBuf, _id: BucketSegmentId) -> PathBuf { PathBuf::new() }
}
#[derive(Clone, Copy, Debug)]
pub struct FlushedOffset(pub u64);
/// the seglog writer behind its contract (units/U02): sync() = flush + sync_data + publish flushed == write offset
#[derive(Debug)]
pub struct BucketSegmentWriter { pub write_offset: u64, pub flushed: u64, pub fsyncs: u32 }
impl BucketSegmentWriter {
    pub fn create(_p: PathBuf, _b: BucketId, _size: usize, _c: bool) -> Result<Self, WriteError> {
        Ok(BucketSegmentWriter { write_offset: SEGMENT_HEADER_SIZE as u64, flushed: SEGMENT_HEADER_SIZE as u64, fsyncs: 0 })
    }
    pub fn sync(&mut self) -> Result<u64, WriteError> { self.flushed = self.write_offset; self.fsyncs += 1; Ok(self.write_offset) }
    pub fn flushed_offset(&self) -> FlushedOffset { FlushedOffset(self.flushed) }
    pub fn write_offset(&self) -> u64 { self.write_offset }
    /// seglog Writer::set_len (units/U02, wr_set_len_keeps_cursor_aligned): beyond the end a no-op, otherwise both offsets lowered
    pub fn set_len(&mut self, o: u64) -> Result<(), WriteError> { if o < self.write_offset { self.write_offset = o; if self.flushed > o { self.flushed = o; } } Ok(()) }
}
pub struct BucketSegmentReader;
impl BucketSegmentReader { pub fn open(_p: PathBuf, _f: Option<FlushedOffset>) -> Result<Self, WriteError> { Ok(BucketSegmentReader) } }
pub struct ThreadPool;
pub struct ClosedIndex;
pub struct OpenEventIndex { pub n: u32 }
impl OpenEventIndex { pub fn create(_id: BucketSegmentId, _p: PathBuf) -> Result<Self, WriteError> { Ok(OpenEventIndex { n: 0 }) } pub fn insert(&mut self, _e: Uuid, _o: u64) { self.n += 1; } pub fn close(self, _t: &Arc<ThreadPool>) -> Result<ClosedIndex, WriteError> { Ok(ClosedIndex) } }
pub struct OpenPartitionIndex { pub n: u32 }
impl OpenPartitionIndex { pub fn create(_id: BucketSegmentId, _p: PathBuf) -> Result<Self, WriteError> { Ok(OpenPartitionIndex { n: 0 }) } pub fn insert(&mut self, _p: PartitionId, _s: u64, _o: u64) -> Result<(), WriteError> { self.n += 1; Ok(()) } pub fn close(self, _t: &Arc<ThreadPool>) -> Result<ClosedIndex, WriteError> { Ok(ClosedIndex) } }
pub struct OpenStreamIndex { pub n: u32 }
impl OpenStreamIndex { pub fn create(_id: BucketSegmentId, _p: PathBuf, _size: usize) -> Result<Self, WriteError> { Ok(OpenStreamIndex { n: 0 }) } pub fn insert(&mut self, _s: StreamId, _k: Uuid, _v: u64, _o: u64) -> Result<(), WriteError> { self.n += 1; Ok(()) } pub fn close(self, _t: &Arc<ThreadPool>) -> Result<ClosedIndex, WriteError> { Ok(ClosedIndex) } }
impl std::fmt::Display for WriteError { fn fmt(&self, f: &mut std::fmt::Formatter<'_>) -> std::fmt::Result { Ok(()) } }
pub struct LiveIndexSet { pub event_index: OpenEventIndex, pub partition_index: OpenPartitionIndex, pub stream_index: OpenStreamIndex }
pub struct LiveIndexes { pub inner: RefCell<LiveIndexSet> }
impl LiveIndexes { pub fn blocking_write(&self) -> RefMut<'_, LiveIndexSet> { self.inner.borrow_mut() } }
pub struct ReaderThreadPool;
impl ReaderThreadPool { pub fn add_bucket_segment(&self, _id: BucketSegmentId, _r: &BucketSegmentReader, _a: Option<&ClosedIndex>, _b: Option<&ClosedIndex>, _c: Option<&ClosedIndex>) {} }
/// tokio::sync::watch as a cell. A dropped Sender records its final value: receivers still subscribed to it (appenders of the
/// sealed segment) observe exactly that value (tokio's wait_for checks the current value before reporting closure).
pub static mut DROPPED_FINAL: Option<u64> = None;
pub static mut NEXT_CHANNEL: u32 = 1;
pub mod watch {
    /// `chan` identifies the channel: a receiver observes the values of exactly the channel it was subscribed to
    pub struct Sender<T: Copy + Into<u64>> { pub value: T, pub chan: u32 }
    #[derive(Clone, Copy, Debug)]
    pub struct Receiver<T> { pub chan: u32, pub _p: core::marker::PhantomData<T> }
    pub fn channel<T: Copy + Into<u64>>(v: T) -> (Sender<T>, Receiver<T>) {
        let chan = unsafe { let c = super::NEXT_CHANNEL; super::NEXT_CHANNEL += 1; c };
        (Sender { value: v, chan }, Receiver { chan, _p: core::marker::PhantomData })
    }
    impl<T: Copy + Into<u64>> Sender<T> {
        pub fn send_replace(&self, v: T) -> T { unsafe { let p = &self.value as *const T as *mut T; std::ptr::replace(p, v) } }
        pub fn subscribe(&self) -> Receiver<T> { Receiver { chan: self.chan, _p: core::marker::PhantomData } }
    }
    impl<T: Copy + Into<u64>> Drop for Sender<T> { fn drop(&mut self) { unsafe { super::DROPPED_FINAL = Some(self.value.into()); } } }
}
#[derive(Clone, Copy)]
pub struct Instant;
impl Instant { pub fn now() -> Instant { Instant } }

// ---- environment of the acknowledgement hand-off slice (tail of Worker::handle_append_events)
#[derive(Debug)]
pub struct AppendResult { pub ok: u8 }
pub struct FullAppendResult { pub append: AppendResult, pub write_offset: u64, pub sync_rx: watch::Receiver<u64> }
pub struct WriteOperation { pub partition_key: Uuid, pub partition_id: PartitionId, pub transaction_id: Uuid, pub events: Events, pub event_versions: u8, pub expected_partition_sequence: u8, pub unique_streams: usize, pub confirmation_count: u8 }
/// only the lengths of an event's variable parts matter to the size estimate
pub struct Len(pub usize);
impl Len { pub fn len(&self) -> usize { self.0 } }
pub struct NewEvent { pub stream_id: Len, pub event_name: Len, pub metadata: Len, pub payload: Len }
pub struct Events { pub items: [NewEvent; 2], pub n: usize }
impl Events { pub fn iter(&self) -> std::slice::Iter<'_, NewEvent> { self.items[..self.n].iter() } }
pub const RECORD_HEAD_SIZE: usize = 8;
pub fn get_uuid_flag(u: &Uuid) -> bool { u.0 & 1 == 1 }
pub struct Lsv; impl Lsv { pub fn len(&self) -> usize { 1 } }
pub struct Batch { pub confirmation_count: u8 }
/// what the harness needs to know about the run: where handle_write started, how it ended
pub static mut HW_STARTED_AT: Option<u64> = None;
pub static mut HW_CALLS: u32 = 0;
pub static mut REPLIES: u32 = 0;
pub static mut REPLY: Option<Result<(u64, u32), ()>> = None; // Ok((write_offset, channel)) as handed to the appender
pub struct ReplyTx;
impl ReplyTx { pub fn send(self, r: Result<FullAppendResult, WriteError>) -> Result<(), ()> { unsafe { REPLIES += 1; REPLY = Some(match r { Ok(f) => Ok((f.write_offset, f.sync_rx.chan)), Err(_) => Err(()) }); } Ok(()) } }

//@item CONFIRMATION_HEADER_SIZE
//@item RECORD_HEADER_SIZE
//@item EVENT_HEADER_SIZE
//@item COMMIT_SIZE
//@item MAGIC_BYTES_SIZE
//@item VERSION_SIZE
//@item BUCKET_ID_SIZE
//@item CREATED_AT_SIZE
//@item PADDING_SIZE
//@item SEGMENT_HEADER_SIZE
//@item PendingIndex
//@item WriterSet
//@item WriterSet::sync
//@item WriterSet::rollover
//@item ack_handoff_slice
impl WriterSet {
    /// WriterSet::handle_write behind its contract (as read from the code; NOT verified here): it fails before writing anything,
    /// or fails after writing some records (their bytes stay in the live segment, nothing else changes), or writes all records,
    /// queues their index entries, and may sync inline (sync_if_necessary -> the REAL WriterSet::sync above).
    fn handle_write(&mut self, _req: WriteOperation) -> Result<AppendResult, WriteError> {
        unsafe { HW_STARTED_AT = Some(self.writer.write_offset); HW_CALLS += 1; }
        let room = (self.segment_size as u64).saturating_sub(self.writer.write_offset);
        let written: u64 = kani::any();
        kani::assume(written <= room);
        let outcome: u8 = kani::any();
        if outcome == 0 { return Err(WriteError::Io); }
        self.writer.write_offset += written;
        self.bytes_since_sync += written as usize;
        if outcome == 1 { return Err(WriteError::Io); }
        kani::assume(written > 0);
        self.pending_indexes.push(PendingIndex { event_id: Uuid(7), partition_key: Uuid(9), partition_id: 1, partition_sequence: 5, stream_id: StreamId(1), stream_version: 5, offset: unsafe { HW_STARTED_AT.unwrap() } });
        self.unflushed_events += 1;
        if outcome == 2 { let _ = self.sync(); }
        Ok(AppendResult { ok: 1 })
    }
}

#[cfg(kani)]
mod verif {
    use super::*;

    fn any_ws() -> WriterSet {
        let wo: u64 = kani::any();
        let fl: u64 = kani::any();
        let sv: u64 = kani::any();
        // wsinv
        kani::assume(SEGMENT_HEADER_SIZE as u64 <= fl && fl <= wo && wo < (1u64 << 40) && sv <= fl);
        let np: usize = kani::any();
        kani::assume(np <= 2);
        let mut pend = Vec::new();
        let mut i = 0;
        while i < np { pend.push(PendingIndex { event_id: Uuid(i as u8), partition_key: Uuid(9), partition_id: 1, partition_sequence: i as u64, stream_id: StreamId(1), stream_version: i as u64, offset: 100 + i as u64 }); i += 1; }
        WriterSet {
            dir: PathBuf::new(), reader: BucketSegmentReader, reader_pool: ReaderThreadPool,
            bucket_segment_id: BucketSegmentId { bucket_id: 3, segment_id: kani::any::<u16>() as u32 },
            segment_size: 1 << 20, compression: kani::any(),
            writer: BucketSegmentWriter { write_offset: wo, flushed: fl, fsyncs: 0 },
            index_segment_id: Arc::new(AtomicU32::new(0)),
            indexes: LiveIndexes { inner: RefCell::new(LiveIndexSet { event_index: OpenEventIndex { n: 0 }, partition_index: OpenPartitionIndex { n: 0 }, stream_index: OpenStreamIndex { n: 0 } }) },
            pending_indexes: pend, sync_tx: watch::Sender { value: sv, chan: 0 }, last_synced: Instant, unflushed_events: kani::any(), bytes_since_sync: kani::any(),
            thread_pool: Arc::new(ThreadPool), has_recent_activity: Arc::new(std::sync::atomic::AtomicBool::new(false)),
        }
    }
    fn wsinv(ws: &WriterSet) -> bool { ws.sync_tx.value <= ws.writer.flushed && ws.writer.flushed <= ws.writer.write_offset }

    #[kani::proof]
    #[kani::unwind(4)]
    fn ws_sync_publishes_only_fsynced() {
        let mut ws = any_ws();
        let np = ws.pending_indexes.len() as u32;
        let wo = ws.writer.write_offset;
        kani::cover!(np == 2 && ws.sync_tx.value < wo, "reachable: unsynced bytes and two pending index entries");
        assert!(ws.sync().is_ok());
        assert!(wsinv(&ws), "the published watermark never exceeds what is fsynced in the live segment");
        assert!(ws.sync_tx.value == wo && ws.writer.flushed == wo && ws.writer.fsyncs == 1, "after sync everything written is fsynced and released");
        assert!(ws.pending_indexes.is_empty() && ws.indexes.inner.borrow().event_index.n == np, "pending index entries are published exactly once, before the watermark");
        assert!(ws.unflushed_events == 0 && ws.bytes_since_sync == 0);
    }

    #[kani::proof]
    #[kani::unwind(4)]
    fn ws_rollover_keeps_watermark_sound() {
        let mut ws = any_ws();
        let old_id = ws.bucket_segment_id;
        let old_wo = ws.writer.write_offset;
        let old_sv = ws.sync_tx.value;
        unsafe { DROPPED_FINAL = None; }
        kani::cover!(old_sv < old_wo && old_wo > 1000, "reachable: rollover with unsynced bytes in a long sealed segment");
        assert!(ws.rollover().is_ok());
        // appenders of the sealed segment hold receivers of the channel that was live when they wrote: whichever channel that is
        // now (the same one, or one dropped by rollover), its value must have reached the sealed segment's end
        let sealed_released = match unsafe { DROPPED_FINAL } { Some(v) => v == old_wo, None => ws.sync_tx.value >= old_wo };
        assert!(sealed_released, "every append of the sealed segment is released by the rollover's sync");
        assert!(ws.bucket_segment_id.segment_id == old_id.segment_id + 1 && ws.index_segment_id.load(Ordering::SeqCst) == old_id.segment_id + 1);
        assert!(ws.pending_indexes.is_empty(), "the sealed segment's pending entries were published");
        assert!(ws.writer.write_offset == SEGMENT_HEADER_SIZE as u64 && ws.writer.flushed == SEGMENT_HEADER_SIZE as u64, "the live writer is the fresh segment");
        assert!(wsinv(&ws), "after a rollover the published watermark still does not exceed what is fsynced in the (new) live segment: the first append to it must not be acknowledged before its fsync");
    }

    /// The acknowledgement hand-off (tail of Worker::handle_append_events, lifted verbatim): rollover decision, the write, the
    /// roll-back of a failed write, the reply. With wsinv (above) P1 gives "released => fsynced": the appender waits on the
    /// channel of the segment its records went to, for the offset at which they end.
    #[kani::proof]
    #[kani::unwind(10)]
    fn ws_ack_handoff() {
        let mut ws = any_ws();
        kani::assume(ws.pending_indexes.len() <= 1 && ws.unflushed_events < 1000 && ws.bytes_since_sync < (1 << 40));
        let seg: usize = kani::any();
        kani::assume(seg >= 1 << 10 && seg <= 1 << 30 && ws.writer.write_offset <= seg as u64);
        ws.segment_size = seg;
        let write_offset = ws.writer.write_offset;
        let n: usize = kani::any();
        kani::assume(n >= 1 && n <= 2);
        let l: [usize; 8] = kani::any();
        let mut i = 0;
        while i < 8 { kani::assume(l[i] <= if i % 4 < 2 { 255 } else { 1 << 32 }); i += 1; }
        let events = Events { items: [NewEvent { stream_id: Len(l[0]), event_name: Len(l[1]), metadata: Len(l[2]), payload: Len(l[3]) },
                                      NewEvent { stream_id: Len(l[4]), event_name: Len(l[5]), metadata: Len(l[6]), payload: Len(l[7]) }], n };
        let tx = Uuid(if n == 1 { 1 } else { 2 }); // Transaction::new: a single-event transaction carries the flag (no commit record)
        let old_value = ws.sync_tx.value;
        let old_chan = ws.sync_tx.chan;
        let old_segment = ws.bucket_segment_id;
        unsafe { HW_STARTED_AT = None; HW_CALLS = 0; REPLIES = 0; REPLY = None; NEXT_CHANNEL = 1; }
        ack_handoff_slice(&mut ws, events, tx, ReplyTx, Uuid(1), 1, 1, 0, Lsv, Batch { confirmation_count: 1 });
        let rolled = ws.bucket_segment_id != old_segment;
        assert!(unsafe { REPLIES } == 1 && unsafe { HW_CALLS } <= 1, "exactly one reply, at most one write attempt");
        if unsafe { HW_CALLS } == 0 {
            // rejected before anything was written (the transaction does not fit a segment, units/U19): nothing changes
            kani::cover!(true, "reachable: rejected as larger than a segment");
            assert!(matches!(unsafe { REPLY.unwrap() }, Err(())) && !rolled && ws.writer.write_offset == write_offset && ws.sync_tx.value == old_value);
            return;
        }
        let started = unsafe { HW_STARTED_AT.unwrap() };
        kani::cover!(rolled, "reachable: the request rolls the segment over");
        assert!(started == if rolled { SEGMENT_HEADER_SIZE as u64 } else { write_offset }, "the write starts at the live segment's write offset (after the rollover, if any)");
        match unsafe { REPLY.unwrap() } {
            Ok((wo, chan)) => {
                kani::cover!(rolled, "reachable: acknowledged append that rolled over");
                assert!(chan == ws.sync_tx.chan, "P1: the appender waits on the watermark channel of the segment its records were written to");
                assert!(wo == ws.writer.write_offset && wo > started, "P1: ... for the offset at which its records end");
            }
            Err(()) => {
                kani::cover!(rolled, "reachable: failed write after a rollover");
                assert!(ws.writer.write_offset == started, "P2: a failed write is rolled back to where it started: no bytes of a rejected transaction stay in the live segment");
            }
        }
        assert!(wsinv(&ws), "P3: the published watermark never exceeds what is fsynced in the live segment");
        if ws.sync_tx.chan == old_chan && ws.sync_tx.value != old_value { assert!(ws.pending_indexes.is_empty(), "P3: the watermark is only raised together with the publication of the pending index entries (WriterSet::sync)"); }
    }
}
