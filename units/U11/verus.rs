// U11 (Verus) — WriteCircuitBreaker with HAVOCKED atomics: every load / fetch_add / compare_exchange returns
// an arbitrary value and stores have no visible effect, so whatever another thread does between two
// atomic operations is subsumed. What verifies here (absence of arithmetic overflow/underflow, of
// unreachable!/panic!) therefore holds under ANY interleaving at atomic-operation granularity.
use vstd::prelude::*;
verus! {

// ---------------- shims: std::sync::atomic, std::time ----------------
#[derive(Clone, Copy)]
pub enum Ordering { Relaxed, Release, Acquire, AcqRel, SeqCst }

#[verifier::external_body]
pub struct AtomicU8 { v: std::sync::atomic::AtomicU8 }
impl AtomicU8 {
    #[verifier::external_body]
    pub fn new(v: u8) -> Self { unimplemented!() }
    /// arbitrary value: another thread may have stored anything
    #[verifier::external_body]
    pub fn load(&self, o: Ordering) -> u8 { unimplemented!() }
    #[verifier::external_body]
    pub fn store(&self, v: u8, o: Ordering) { unimplemented!() }
    #[verifier::external_body]
    pub fn compare_exchange(&self, current: u8, new: u8, s: Ordering, f: Ordering) -> Result<u8, u8> { unimplemented!() }
}
#[verifier::external_body]
pub struct AtomicU32 { v: std::sync::atomic::AtomicU32 }
impl AtomicU32 {
    #[verifier::external_body]
    pub fn new(v: u32) -> Self { unimplemented!() }
    #[verifier::external_body]
    pub fn load(&self, o: Ordering) -> u32 { unimplemented!() }
    #[verifier::external_body]
    pub fn store(&self, v: u32, o: Ordering) { unimplemented!() }
    /// ENVIRONMENT ASSUMPTION (listed in trusted_base): a counter that is reset on every state transition
    /// never holds u32::MAX, which would need 2^32 - 1 unreset increments.
    #[verifier::external_body]
    pub fn fetch_add(&self, v: u32, o: Ordering) -> (r: u32)
        ensures r < u32::MAX,
    { unimplemented!() }
}
#[verifier::external_body]
pub struct AtomicU64 { v: std::sync::atomic::AtomicU64 }
impl AtomicU64 {
    #[verifier::external_body]
    pub fn new(v: u64) -> Self { unimplemented!() }
    #[verifier::external_body]
    pub fn load(&self, o: Ordering) -> u64 { unimplemented!() }
    #[verifier::external_body]
    pub fn store(&self, v: u64, o: Ordering) { unimplemented!() }
}
#[verifier::external_body]
pub struct Duration { d: std::time::Duration }
impl Duration {
    #[verifier::external_body]
    pub fn as_millis(&self) -> u128 { unimplemented!() }
}
/// R1: the wall clock is an arbitrary value
#[verifier::external_body]
pub fn verif_any_u64() -> u64 { unimplemented!() }

//@item CircuitState
//@item From_u8_for_CircuitState
// spec side of the conversion (vstd's `From` contract: obeys_from_spec() ==> ret == from_spec(v))
pub open spec fn state_of(v: u8) -> CircuitState {
    if v == 1 { CircuitState::Open } else if v == 2 { CircuitState::HalfOpen } else { CircuitState::Closed }
}
impl vstd::std_specs::convert::FromSpecImpl<u8> for CircuitState {
    open spec fn obeys_from_spec() -> bool { true }
    open spec fn from_spec(v: u8) -> Self { state_of(v) }
}
//@item WriteCircuitBreaker
//@item WriteCircuitBreaker::should_allow_request
//@item WriteCircuitBreaker::record_success
//@item WriteCircuitBreaker::record_failure
//@item WriteCircuitBreaker::current_state
//@item WriteCircuitBreaker::failure_count
//@item WriteCircuitBreaker::transition_to_open
//@item WriteCircuitBreaker::transition_to_half_open
//@item WriteCircuitBreaker::transition_to_closed
//@item current_timestamp

}
fn main() {}
