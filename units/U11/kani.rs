// U11 (Kani) — WriteCircuitBreaker against the REAL std atomics, executed sequentially, one harness per
// method over an ARBITRARY breaker state (every atomic and every configuration value symbolic) and an
// arbitrary clock value. Loop-free: each harness is a complete proof of the per-call contract for one thread.
#![allow(unused, dead_code, static_mut_refs)]
use std::sync::atomic::{AtomicU8, AtomicU32, AtomicU64, Ordering};
use std::time::Duration;

static mut VERIF_CLOCK: u64 = 0;
/// R1: the wall clock is whatever the harness chose
pub fn verif_clock() -> u64 { unsafe { VERIF_CLOCK } }

//@item CircuitState
//@item From_u8_for_CircuitState
//@item WriteCircuitBreaker
//@item WriteCircuitBreaker::new
//@item WriteCircuitBreaker::should_allow_request
//@item WriteCircuitBreaker::record_success
//@item WriteCircuitBreaker::record_failure
//@item WriteCircuitBreaker::current_state
//@item WriteCircuitBreaker::estimated_recovery_time
//@item WriteCircuitBreaker::failure_count
//@item WriteCircuitBreaker::last_failure_time
//@item WriteCircuitBreaker::transition_to_open
//@item WriteCircuitBreaker::transition_to_half_open
//@item WriteCircuitBreaker::transition_to_closed
//@item current_timestamp

#[cfg(kani)]
mod verif {
    use super::*;

    #[derive(Clone, Copy)]
    struct Snap { state: u8, failures: u32, last_failure: u64, last_success: u64, calls: u32, successes: u32 }

    fn snap(b: &WriteCircuitBreaker) -> Snap {
        Snap {
            state: b.state.load(Ordering::SeqCst),
            failures: b.failure_count.load(Ordering::SeqCst),
            last_failure: b.last_failure_time.load(Ordering::SeqCst),
            last_success: b.last_success_time.load(Ordering::SeqCst),
            calls: b.half_open_call_count.load(Ordering::SeqCst),
            successes: b.half_open_success_count.load(Ordering::SeqCst),
        }
    }
    fn st(v: u8) -> CircuitState { if v == 1 { CircuitState::Open } else if v == 2 { CircuitState::HalfOpen } else { CircuitState::Closed } }

    fn any_breaker() -> (WriteCircuitBreaker, u64) {
        let now: u64 = kani::any();
        unsafe { VERIF_CLOCK = now; }
        let secs: u64 = kani::any();
        let nanos: u32 = kani::any();
        kani::assume(nanos < 1_000_000_000);
        kani::assume(secs < (1u64 << 50));
        let b = WriteCircuitBreaker {
            state: AtomicU8::new(kani::any()),
            failure_count: AtomicU32::new(kani::any()),
            last_failure_time: AtomicU64::new(kani::any()),
            last_success_time: AtomicU64::new(kani::any()),
            half_open_call_count: AtomicU32::new(kani::any()),
            half_open_success_count: AtomicU32::new(kani::any()),
            failure_threshold: kani::any(),
            recovery_timeout: Duration::new(secs, nanos),
            half_open_max_calls: kani::any(),
            half_open_success_threshold: kani::any(),
        };
        // ENVIRONMENT ASSUMPTION shared with the Verus rendering: counters never sit at u32::MAX
        kani::assume(b.failure_count.load(Ordering::SeqCst) < u32::MAX);
        kani::assume(b.half_open_call_count.load(Ordering::SeqCst) < u32::MAX);
        kani::assume(b.half_open_success_count.load(Ordering::SeqCst) < u32::MAX);
        (b, now)
    }

    #[kani::proof]
    fn cb_should_allow_request() {
        let (b, now) = any_breaker();
        let o = snap(&b);
        let r = b.should_allow_request();
        let n = snap(&b);
        match st(o.state) {
            CircuitState::Closed => {
                assert!(r, "closed admits");
                assert!(n.state == o.state && n.failures == o.failures && n.calls == o.calls && n.successes == o.successes);
            }
            CircuitState::Open => {
                let elapsed_ok = now.saturating_sub(o.last_failure) as u128 >= b.recovery_timeout.as_millis();
                assert!(r == elapsed_ok, "open admits exactly when the recovery timeout has elapsed");
                if r {
                    assert!(n.state == CircuitState::HalfOpen as u8 && n.calls == 0 && n.successes == 0, "a new half-open episode starts with zero probes");
                } else {
                    assert!(n.state == o.state && n.calls == o.calls && n.successes == o.successes);
                }
                assert!(n.failures == o.failures);
            }
            CircuitState::HalfOpen => {
                assert!(r == (o.calls < b.half_open_max_calls), "half-open admits only while fewer than max probes were admitted in this episode");
                assert!(n.calls == o.calls + 1, "every half-open admission check is counted");
                assert!(n.state == o.state && n.failures == o.failures && n.successes == o.successes);
            }
        }
        assert!(n.last_failure == o.last_failure && n.last_success == o.last_success);
        kani::cover!(st(o.state) == CircuitState::Open && r, "reachable: open -> half-open");
    }

    #[kani::proof]
    fn cb_record_failure() {
        let (b, now) = any_breaker();
        let o = snap(&b);
        b.record_failure();
        let n = snap(&b);
        assert!(n.last_failure == now, "failure time recorded");
        assert!(n.last_success == o.last_success);
        match st(o.state) {
            CircuitState::Closed => {
                let opens = o.failures + 1 >= b.failure_threshold;
                assert!((n.state == CircuitState::Open as u8) == opens, "closed -> open exactly when the consecutive-failure count reaches the threshold");
                assert!(n.failures == o.failures + 1, "each failure is counted once");
                if !opens { assert!(n.state == o.state && n.calls == o.calls && n.successes == o.successes); }
                else { assert!(n.calls == 0 && n.successes == 0); }
            }
            CircuitState::HalfOpen => {
                assert!(n.state == CircuitState::Open as u8 && n.calls == 0 && n.successes == 0, "a failed probe re-opens");
                assert!(n.failures == o.failures);
            }
            CircuitState::Open => {
                assert!(n.state == o.state && n.failures == o.failures && n.calls == o.calls && n.successes == o.successes);
            }
        }
        kani::cover!(st(o.state) == CircuitState::Closed && n.state == CircuitState::Open as u8, "reachable: opens");
    }

    #[kani::proof]
    fn cb_record_success() {
        let (b, now) = any_breaker();
        let o = snap(&b);
        b.record_success();
        let n = snap(&b);
        assert!(n.last_success == now && n.last_failure == o.last_failure);
        match st(o.state) {
            CircuitState::Closed => {
                assert!(n.failures == 0, "a success resets the consecutive-failure count");
                assert!(n.state == o.state && n.calls == o.calls && n.successes == o.successes);
            }
            CircuitState::HalfOpen => {
                let closes = o.successes + 1 >= b.half_open_success_threshold;
                if closes {
                    assert!(n.state == CircuitState::Closed as u8 && n.failures == 0 && n.calls == 0 && n.successes == 0, "enough probe successes close the circuit with clean counters");
                } else {
                    assert!(n.state == o.state && n.successes == o.successes + 1 && n.calls == o.calls && n.failures == o.failures);
                }
            }
            CircuitState::Open => {
                assert!(n.state == CircuitState::HalfOpen as u8 && n.calls == 0 && n.successes == 0 && n.failures == o.failures);
            }
        }
        kani::cover!(st(o.state) == CircuitState::HalfOpen && n.state == CircuitState::Closed as u8, "reachable: closes");
    }

    #[kani::proof]
    fn cb_queries_total() {
        let (b, now) = any_breaker();
        let o = snap(&b);
        let s = b.current_state();
        assert!(s == st(o.state));
        let e = b.estimated_recovery_time();
        match st(o.state) {
            CircuitState::Closed => assert!(e.is_none()),
            CircuitState::HalfOpen => assert!(e == Some(Duration::ZERO)),
            CircuitState::Open => {
                let d = e.expect("open reports a recovery time");
                assert!(d <= b.recovery_timeout, "remaining time never exceeds the timeout");
                if now <= o.last_failure {
                    assert!(d == b.recovery_timeout, "no time elapsed (or the clock stepped back): full timeout remains");
                }
            }
        }
        assert!(b.failure_count() == o.failures);
        assert!(b.last_failure_time().is_none() == (o.last_failure == 0));
        let n = snap(&b);
        assert!(n.state == o.state && n.failures == o.failures && n.calls == o.calls && n.successes == o.successes && n.last_failure == o.last_failure, "queries change nothing");
        kani::cover!(st(o.state) == CircuitState::Open && e != Some(Duration::ZERO), "reachable");
    }

    /// Counting clause, sequential: starting a half-open episode and issuing k admission checks admits
    /// exactly min(k, max) probes (k <= 6: bounded in the number of calls only).
    #[kani::proof]
    #[kani::unwind(8)]
    fn cb_half_open_episode_bounded() {
        let (b, _now) = any_breaker();
        b.state.store(CircuitState::Open as u8, Ordering::SeqCst);
        b.transition_to_half_open();
        kani::assume(b.half_open_max_calls <= 8);
        let k: u32 = kani::any();
        kani::assume(k <= 6);
        let mut admitted: u32 = 0;
        let mut i = 0;
        while i < k {
            if b.should_allow_request() { admitted += 1; }
            i += 1;
        }
        assert!(admitted == core::cmp::min(k, b.half_open_max_calls), "at most max probes per half-open episode");
        kani::cover!(admitted == 3 && k == 6, "reachable");
    }

    /// Counting clause, sequential: from a fresh breaker, only failures, no success: it is closed after
    /// fewer than `threshold` failures and open after exactly `threshold` (threshold <= 5: bounded).
    #[kani::proof]
    #[kani::unwind(8)]
    fn cb_opens_after_threshold_bounded() {
        unsafe { VERIF_CLOCK = kani::any(); }
        let th: u32 = kani::any();
        kani::assume(th >= 1 && th <= 5);
        let b = WriteCircuitBreaker::new(th, Duration::from_millis(kani::any::<u32>() as u64), kani::any(), kani::any());
        let interrupt: u32 = kani::any(); // position of one success in the failure sequence (>= th: none)
        let mut i = 0;
        while i < th - 1 {
            if i == interrupt { b.record_success(); }
            b.record_failure();
            assert!(b.current_state() == CircuitState::Closed, "fewer than threshold consecutive failures never open");
            i += 1;
        }
        if interrupt < th - 1 || th == 1 {
            // (with a success in between, one more failure is not enough unless it completes a fresh run)
        }
        b.record_failure();
        if interrupt >= th - 1 {
            assert!(b.current_state() == CircuitState::Open, "the threshold-th consecutive failure opens");
        } else {
            assert!((b.current_state() == CircuitState::Open) == (th - interrupt >= th), "a success restarts the count");
        }
    }
}
