// U16 (Kani) — SubscriptionMatcher::{has_seen, update_state, update_from_sequences} extracted verbatim against the model
// HashMap/HashSet (D4). Spec: floor(matcher, key) = the position below which events of `key` count as already delivered.
//   has_seen(r)      <=>  r does not match the subscription  OR  pos(r) < floor(key(r))
//   update_state(r)   :   floor(key(r)) becomes pos(r) + 1 and EVERY OTHER key keeps its floor (whole-view frame)
// from which exactly-once on the live path follows: not has_seen(r), then update_state(r), then has_seen(r), floors only rise.
#![allow(unused, dead_code)]
//@include shims/model_hash.rs CAP=4

// ---- environment (D4): ids are opaque equality tokens; EventRecord is sliced (D3) to the fields the matcher reads ----
#[derive(Clone, Copy, Debug, PartialEq, Eq, Hash)]
pub struct Uuid(pub u8);
#[derive(Clone, Copy, Debug, PartialEq, Eq, Hash)]
pub struct StreamId(pub u8);

//@item PartitionId
//@item EventRecord
//@item SubscriptionMatcher
//@item FromSequences
//@item FromVersions
//@item SubscriptionMatcher::has_seen
//@item SubscriptionMatcher::update_state
//@item SubscriptionMatcher::update_from_sequences

#[cfg(kani)]
mod verif {
    use super::*;

    fn any_seq_map() -> HashMap<PartitionId, u64> {
        let mut m = HashMap::new();
        let n: u8 = kani::any();
        kani::assume(n <= 2);
        if n > 0 { m.insert(kani::any::<u16>() % 4, kani::any()); }
        if n > 1 { m.insert(kani::any::<u16>() % 4, kani::any()); }
        m
    }
    fn any_from_sequences() -> FromSequences {
        match kani::any::<u8>() % 3 {
            0 => FromSequences::Latest,
            1 => FromSequences::Partitions { from_sequences: any_seq_map(), fallback: kani::any() },
            _ => FromSequences::AllPartitions(kani::any()),
        }
    }
    fn any_pid_set() -> HashSet<PartitionId> {
        let mut s = HashSet::new();
        let n: u8 = kani::any();
        kani::assume(n <= 2);
        if n > 0 { s.insert(kani::any::<u16>() % 4); }
        if n > 1 { s.insert(kani::any::<u16>() % 4); }
        s
    }
    fn any_skey() -> (Uuid, StreamId) { (Uuid(kani::any::<u8>() % 2), StreamId(kani::any::<u8>() % 3)) }
    fn any_from_versions() -> FromVersions {
        let fv = any_from_versions0();
//@carve KF-C09-allstreams-forgets-floor         kani::assume(!matches!(fv, FromVersions::AllStreams(_)));
        fv
    }
    fn any_from_versions0() -> FromVersions {
        match kani::any::<u8>() % 3 {
            0 => FromVersions::Latest,
            1 => { let mut m = HashMap::new(); let n: u8 = kani::any(); kani::assume(n <= 2); if n > 0 { m.insert(any_skey(), kani::any()); } if n > 1 { m.insert(any_skey(), kani::any()); } FromVersions::Streams(m) }
            _ => FromVersions::AllStreams(kani::any()),
        }
    }
    fn any_rec() -> EventRecord {
        let r = EventRecord { partition_key: Uuid(kani::any::<u8>() % 2), partition_id: kani::any::<u16>() % 4, partition_sequence: kani::any(), stream_version: kani::any(), stream_id: StreamId(kani::any::<u8>() % 3) };
        kani::assume(r.partition_sequence < u64::MAX && r.stream_version < u64::MAX);
        r
    }

    /// (matches, floor) of a partition-keyed subscription for partition `pid`
    fn floor_seq(fs: &FromSequences, pid: PartitionId) -> Option<u64> {
        match fs {
            FromSequences::Latest => None,
            FromSequences::Partitions { from_sequences, fallback } => match from_sequences.get(&pid) { Some(v) => Some(*v), None => *fallback },
            FromSequences::AllPartitions(v) => Some(*v),
        }
    }
    fn floor_ver(fv: &FromVersions, key: &(Uuid, StreamId)) -> Option<u64> {
        match fv { FromVersions::Latest => None, FromVersions::Streams(m) => m.get(key).copied(), FromVersions::AllStreams(v) => Some(*v) }
    }
    /// Some(floor) if the record matches the subscription (floor None = nothing delivered yet); None if it does not match
    fn spec(m: &SubscriptionMatcher, r: &EventRecord) -> Option<Option<u64>> {
        match m {
            SubscriptionMatcher::AllPartitions { from_sequences } => Some(floor_seq(from_sequences, r.partition_id)),
            SubscriptionMatcher::Partition { partition_id, from_sequence } => if *partition_id == r.partition_id { Some(*from_sequence) } else { None },
            SubscriptionMatcher::Partitions { partition_ids, from_sequences } => if partition_ids.contains(&r.partition_id) { Some(floor_seq(from_sequences, r.partition_id)) } else { None },
            SubscriptionMatcher::Stream { partition_key, stream_id, from_version } => if *partition_key == r.partition_key && *stream_id == r.stream_id { Some(*from_version) } else { None },
            SubscriptionMatcher::Streams { stream_ids, from_versions } => { let k = (r.partition_key, r.stream_id); if stream_ids.contains(&k) { Some(floor_ver(from_versions, &k)) } else { None } }
        }
    }
    fn is_stream_keyed(m: &SubscriptionMatcher) -> bool { matches!(m, SubscriptionMatcher::Stream { .. } | SubscriptionMatcher::Streams { .. }) }
    fn pos(m: &SubscriptionMatcher, r: &EventRecord) -> u64 { if is_stream_keyed(m) { r.stream_version } else { r.partition_sequence } }
    fn same_key(m: &SubscriptionMatcher, a: &EventRecord, b: &EventRecord) -> bool {
        if is_stream_keyed(m) { a.partition_key == b.partition_key && a.stream_id == b.stream_id } else { a.partition_id == b.partition_id }
    }

    fn check(mut m: SubscriptionMatcher) {
        let r = any_rec();
        let other = any_rec();
        let before_r = spec(&m, &r);
        let before_o = spec(&m, &other);
        // a single-key subscription (Partition / Stream) cannot match two different keys: there the reachability probe is one matching record
        let single_key = matches!(m, SubscriptionMatcher::Partition { .. } | SubscriptionMatcher::Stream { .. });
        kani::cover!(matches!(before_r, Some(Some(_))) && (single_key || (matches!(before_o, Some(Some(_))) && !same_key(&m, &r, &other))), "reachable: a matching record with a floor (multi-key subscriptions: two matching records of different keys, both with a floor)");
        // has_seen
        let expect_seen = match before_r { None => true, Some(None) => false, Some(Some(f)) => pos(&m, &r) < f };
        assert!(m.has_seen(&r) == expect_seen, "has_seen(r) <=> r does not match or lies below the floor of its key");
        // update_state
        m.update_state(r.partition_id, r.partition_sequence, r.partition_key, r.stream_id, r.stream_version);
        let after_r = spec(&m, &r);
        let after_o = spec(&m, &other);
        match before_r {
            None => assert!(after_r.is_none(), "a non-matching record changes nothing for its key"),
            Some(_) => {
                assert!(after_r == Some(Some(pos(&m, &r) + 1)), "the floor of the delivered record's key becomes its position + 1");
                assert!(m.has_seen(&r), "a delivered record is seen afterwards (no repeat)");
            }
        }
        if !same_key(&m, &r, &other) {
            assert!(after_o == before_o, "every other key keeps its floor (no re-delivery, no skipping for other streams / partitions)");
        }
    }

    #[kani::proof] #[kani::unwind(6)] fn sub_matcher_all_partitions() { check(SubscriptionMatcher::AllPartitions { from_sequences: any_from_sequences() }); }
    #[kani::proof] #[kani::unwind(6)] fn sub_matcher_partition() { check(SubscriptionMatcher::Partition { partition_id: kani::any::<u16>() % 4, from_sequence: kani::any() }); }
    #[kani::proof] #[kani::unwind(6)] fn sub_matcher_partitions() { check(SubscriptionMatcher::Partitions { partition_ids: any_pid_set(), from_sequences: any_from_sequences() }); }
    #[kani::proof] #[kani::unwind(6)] fn sub_matcher_stream() { check(SubscriptionMatcher::Stream { partition_key: Uuid(kani::any::<u8>() % 2), stream_id: StreamId(kani::any::<u8>() % 3), from_version: kani::any() }); }
    #[kani::proof] #[kani::unwind(6)] fn sub_matcher_streams() {
        let mut ids = HashSet::new();
        let n: u8 = kani::any();
        kani::assume(n <= 2);
        if n > 0 { ids.insert(any_skey()); }
        if n > 1 { ids.insert(any_skey()); }
        check(SubscriptionMatcher::Streams { stream_ids: ids, from_versions: any_from_versions() });
    }
}
