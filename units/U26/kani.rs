// U26 (Kani) — the replica's gap detection and hand-over of buffered writes (C12): PartitionReplicatorActor::
// {detect_and_handle_gaps, pop_next_buffered_write} extracted verbatim over the REAL OrderedQueue (model BTreeMap).
#![allow(unused, dead_code, static_mut_refs)]
//@include shims/model_btreemap.rs CAP=4
pub type PartitionId = u16;
#[derive(Clone, Copy, Debug, PartialEq, Eq)]
pub struct Duration(pub u64);
#[derive(Clone, Copy, Debug)]
pub struct Elapsed(pub u64);
impl Elapsed { pub fn as_millis(&self) -> u128 { self.0 as u128 } }
#[derive(Clone, Copy, Debug)]
pub struct Instant(pub u64);
impl Instant { pub fn elapsed(&self) -> Elapsed { Elapsed(self.0) } }
#[derive(Clone, Copy, Debug)]
pub struct ReplyEntry { pub received_at: Instant }
pub struct Replies { pub one: Option<ReplyEntry> }
impl Replies { pub fn first(&self) -> Option<&ReplyEntry> { self.one.as_ref() } }
#[derive(Clone, Copy, Debug, PartialEq, Eq)]
pub struct CoordRef(pub u8);
/// a buffered write: `live` = it still has an unexpired reply sender
pub struct BufferedWrite { pub id: u8, pub live: bool, pub reply_senders: Replies, pub coordinator_ref: CoordRef }
impl BufferedWrite { pub fn garbage_collect(&mut self, _t: Duration) -> bool { self.live } }
//@item OrderedQueue
//@item OrderedQueue::pop
//@item OrderedQueue::next
pub static mut TIMEOUT_UPDATES: u32 = 0;
pub struct TimeoutOrderedQueue<K, V> { pub queue: OrderedQueue<K, V> }
impl<K: Ord, V> TimeoutOrderedQueue<K, V> {
    pub fn next(&self) -> &K { self.queue.next() }
    pub fn pop(&mut self) -> Option<V> { let r = self.queue.pop(); unsafe { TIMEOUT_UPDATES += 1; } r }
    pub fn update_timeout(&mut self) { unsafe { TIMEOUT_UPDATES += 1; } }
}
/// failsafe::StateMachine reduced to the permission query (type parameters kept so that the field's declared type resolves)
pub struct StateMachine<P, I> { pub permit: bool, pub _p: core::marker::PhantomData<(P, I)> }
impl<P, I> StateMachine<P, I> { pub fn is_call_permitted(&self) -> bool { self.permit } }
pub struct ConsecutiveFailures<B>(pub core::marker::PhantomData<B>);
pub struct EqualJittered;
pub struct WeakActorRef<T>(pub core::marker::PhantomData<T>);
//@item PartitionReplicatorActor
pub static mut CATCH_UP: Option<(CoordRef, u64, u64)> = None;
pub static mut CATCH_UPS: u32 = 0;
impl PartitionReplicatorActor {
    pub fn trigger_catch_up(&mut self, _p: &WeakActorRef<PartitionReplicatorActor>, c: CoordRef, from_seq: u64, to_seq: u64) { self.catching_up = true; unsafe { CATCH_UP = Some((c, from_seq, to_seq)); CATCH_UPS += 1; } }
}
//@item PartitionReplicatorActor::detect_and_handle_gaps
//@item PartitionReplicatorActor::pop_next_buffered_write

#[cfg(kani)]
mod verif {
    use super::*;
    fn bw(id: u8, live: bool) -> BufferedWrite { BufferedWrite { id, live, reply_senders: Replies { one: if live { Some(ReplyEntry { received_at: Instant(1) }) } else { None } }, coordinator_ref: CoordRef(id) } }
    /// next and up to three buffered writes at strictly ascending keys >= next (no stale keys: KF-C12-progress-to-keeps-stale is about progress_to)
    fn any_actor() -> (PartitionReplicatorActor, u64, [u64; 3], [bool; 3], usize) {
        let next: u64 = kani::any();
        let n: usize = kani::any();
        kani::assume(n <= 3);
        let keys: [u64; 3] = kani::any();
        let live: [bool; 3] = kani::any();
        // a write is buffered AT the next expected sequence only after progress_to moved `next` up to it (insert hands a write at `next`
        // straight back), so a buffered key is never 0
        kani::assume(keys[0] >= next && keys[0] >= 1 && keys[0] < keys[1] && keys[1] < keys[2]);
        let mut map = BTreeMap::new();
        let mut i = 0;
        while i < n { map.insert(keys[i], bw(i as u8, live[i])); i += 1; }
        let a = PartitionReplicatorActor { partition_id: 1, buffered_writes: TimeoutOrderedQueue { queue: OrderedQueue { map, next, limit: 8 } }, buffer_timeout: Duration(10), catching_up: kani::any(), breaker: StateMachine { permit: kani::any(), _p: core::marker::PhantomData } };
        (a, next, keys, live, n)
    }

    #[kani::proof]
    #[kani::unwind(6)]
    fn gap_detection() {
        let (mut a, next, keys, live, n) = any_actor();
        let (was_catching, permit) = (a.catching_up, a.breaker.permit);
        unsafe { CATCH_UP = None; CATCH_UPS = 0; }
        kani::cover!(n == 3 && !live[0] && live[1] && keys[1] > next && permit && !was_catching, "reachable: an expired head, then a live write above a gap");
        a.detect_and_handle_gaps(&WeakActorRef(core::marker::PhantomData));
        // the leading expired writes are gone, everything from the first live one on is kept
        let mut first_live = n;
        let mut i = 0; while i < n { if live[i] && first_live == n { first_live = i; } i += 1; }
        assert!(a.buffered_writes.queue.map.len() == n - first_live, "exactly the leading expired writes are removed");
        let mut j = first_live; while j < n { assert!(a.buffered_writes.queue.map.contains_key(&keys[j]), "live writes and the writes behind them stay buffered"); j += 1; }
        assert!(*a.buffered_writes.next() == next, "the next expected sequence is untouched");
        let gap = first_live < n && keys[first_live] > next;
        if permit && !was_catching && gap {
            assert!(unsafe { CATCH_UPS } == 1 && unsafe { CATCH_UP } == Some((CoordRef(first_live as u8), next, keys[first_live] - 1)), "catch-up is requested once, from the oldest write's coordinator, for exactly the missing range [next, oldest - 1]");
        } else {
            assert!(unsafe { CATCH_UPS } == 0, "no catch-up without a gap, while one is in flight, or while the breaker is open");
        }
    }

    #[kani::proof]
    #[kani::unwind(6)]
    fn pop_next_live_write() {
        let (mut a, next, keys, live, n) = any_actor();
        kani::cover!(n >= 1 && keys[0] == next && !live[0], "reachable: the write at the next sequence has expired");
        let r = a.pop_next_buffered_write();
        let at_next = n >= 1 && keys[0] == next;
        match r {
            Some(w) => assert!(at_next && live[0] && w.id == 0, "only the LIVE write buffered at the next expected sequence is handed over"),
            None => assert!(!(at_next && live[0]), "a live write at the next expected sequence is handed over as soon as it is asked for"),
        }
        assert!(a.buffered_writes.queue.map.len() == n - if at_next { 1 } else { 0 }, "the write at the next sequence leaves the buffer (handed over or expired); nothing else does");
        let mut j = if at_next { 1 } else { 0 }; while j < n { assert!(a.buffered_writes.queue.map.contains_key(&keys[j])); j += 1; }
    }
}
