// U21 (Kani) — RESP request handling (C22): the EAPPEND handler as a SLICE (R5/R4) of `impl HandleRequest for EAppend`, the
// response / event frame constructors and the partition selectors of EPSCAN / EPSEQ / EPSUB, all lifted verbatim from
// sierradb-server. Everything around them is an environment of recorders (D4): the cluster records the transaction it is asked to
// execute, a frame is an ordered list of (key, value) pairs.
#![allow(unused, dead_code, static_mut_refs, non_upper_case_globals)]

// ---- opaque tokens (D4) ----
/// a Uuid is a token carrying the partition hash it embeds (contract of sierradb::id, proved in units/U05)
#[derive(Clone, Copy, Debug, PartialEq, Eq)]
pub struct Uuid { pub hash: u16, pub tag: u8 }
impl Uuid {
    pub fn new_v5(_ns: &Uuid, name: &[u8]) -> Uuid { Uuid { hash: (name[0] as u16).wrapping_mul(257), tag: 5 } }
    pub fn to_string(&self) -> Tok { Tok::Uuid(*self) }
}
pub const NAMESPACE_PARTITION_KEY: Uuid = Uuid { hash: 0, tag: 0 };
pub fn uuid_to_partition_hash(u: Uuid) -> u16 { u.hash }
pub fn uuid_v7_with_partition_hash(h: u16) -> Uuid { Uuid { hash: h, tag: 7 } }
#[derive(Clone, Copy, Debug, PartialEq, Eq)]
pub struct StreamId(pub u8);
impl StreamId { pub fn as_bytes(&self) -> &[u8] { std::slice::from_ref(&self.0) } pub fn to_string(&self) -> Tok { Tok::Stream(self.0) } }
/// std String / Vec<u8> payloads: opaque tokens (their bytes are never inspected by the code under contract)
#[derive(Clone, Copy, Debug, PartialEq, Eq)]
pub struct String(pub u8);
impl String { pub fn to_string(&self) -> String { *self } }
#[derive(Clone, Copy, Debug, PartialEq, Eq)]
pub struct Bytes(pub u8);
pub type PartitionId = u16;
#[derive(Clone, Copy, Debug, PartialEq, Eq)]
pub enum ExpectedVersion { Any, Exists, Empty, Exact(u64) }
impl ExpectedVersion { pub fn is_strict_allowed(&self) -> bool { !matches!(self, ExpectedVersion::Any) } }

// ---- frames: recorders ----
#[derive(Clone, Copy, Debug, PartialEq, Eq)]
pub enum Tok { Lit(u64), Uuid(Uuid), Stream(u8), Name(u8), Blob(u8) }
/// a literal key is recorded as an injective-enough code of its bytes (FNV-1a); comparing `&'static str`s directly sends CBMC into
/// an unbounded memcmp unwinding
pub fn lit(s: &'static str) -> u64 { let b = s.as_bytes(); let mut h: u64 = 0xcbf29ce484222325; let mut i = 0; while i < b.len() { h = (h ^ b[i] as u64).wrapping_mul(0x100000001b3); i += 1; } h }
impl From<&'static str> for Tok { fn from(s: &'static str) -> Tok { Tok::Lit(lit(s)) } }
impl From<String> for Tok { fn from(s: String) -> Tok { Tok::Name(s.0) } }
impl From<Bytes> for Tok { fn from(s: Bytes) -> Tok { Tok::Blob(s.0) } }
#[derive(Clone, Copy, Debug, PartialEq, Eq)]
pub enum Leaf { Simple(Tok), Blob(Tok), Num(i64), Nil }
pub const FRAME_CAP: usize = 12;
#[derive(Clone, Copy, Debug, PartialEq, Eq)]
pub struct BytesFrame { pub leaf: Leaf, pub pairs: [(Leaf, Leaf); FRAME_CAP], pub n: usize }
impl BytesFrame { pub fn leaf(l: Leaf) -> BytesFrame { BytesFrame { leaf: l, pairs: [(Leaf::Nil, Leaf::Nil); FRAME_CAP], n: 0 } } }
pub fn simple_str(s: impl Into<Tok>) -> BytesFrame { BytesFrame::leaf(Leaf::Simple(s.into())) }
pub fn blob_str(s: impl Into<Tok>) -> BytesFrame { BytesFrame::leaf(Leaf::Blob(s.into())) }
pub fn number(n: i64) -> BytesFrame { BytesFrame::leaf(Leaf::Num(n)) }
pub struct IndexMap { pub pairs: [(Leaf, Leaf); FRAME_CAP], pub n: usize }
impl IndexMap { pub fn new() -> Self { IndexMap { pairs: [(Leaf::Nil, Leaf::Nil); FRAME_CAP], n: 0 } } pub fn insert(&mut self, k: BytesFrame, v: BytesFrame) { assert!(self.n < FRAME_CAP, "model capacity"); self.pairs[self.n] = (k.leaf, v.leaf); self.n += 1; } }
macro_rules! indexmap { ($($k:expr => $v:expr),* $(,)?) => {{ let mut m = IndexMap::new(); $( m.insert($k, $v); )* m }}; }
pub fn map(items: IndexMap) -> BytesFrame { BytesFrame { leaf: Leaf::Nil, pairs: items.pairs, n: items.n } }
impl BytesFrame {
    pub fn get(&self, key: &'static str) -> Option<Leaf> { let mut i = 0; while i < self.n { if self.pairs[i].0 == Leaf::Simple(Tok::Lit(lit(key))) { return Some(self.pairs[i].1); } i += 1; } None }
    pub fn key_at(&self, i: usize) -> Leaf { self.pairs[i].0 }
}

// ---- the request environment ----
pub fn verif_any_u64() -> u64 { #[cfg(kani)] { kani::any() } #[cfg(not(kani))] { 0 } }
pub enum ErrorCode { InvalidArg }
pub struct CodedError(pub u8);
impl ErrorCode { pub fn with_message(self, _m: &'static str) -> String { String(1) } }
impl CodedError { pub fn to_string(&self) -> String { String(0) } }
pub trait MapRedisErr<T> { fn map_redis_err(self) -> Result<T, String>; }
impl<T> MapRedisErr<T> for Result<T, ()> { fn map_redis_err(self) -> Result<T, String> { self.map_err(|_| String(0)) } }
#[derive(Clone, Copy, Debug)]
pub struct NewEvent { pub event_id: Uuid, pub stream_id: StreamId, pub stream_version: ExpectedVersion, pub event_name: String, pub timestamp: u64, pub metadata: Bytes, pub payload: Bytes }
pub struct OneVec(pub NewEvent);
macro_rules! smallvec { ($e:expr) => { OneVec($e) }; }
#[derive(Clone, Copy, Debug)]
pub struct Transaction { pub partition_key: Uuid, pub partition_id: PartitionId, pub event: NewEvent }
pub struct TxError;
impl TxError { pub fn to_string(&self) -> String { String(0) } }
pub static mut TX_REJECT: bool = false;
impl Transaction {
    /// Transaction::new validates the ids (units/U05) and may reject: any outcome
    pub fn new(partition_key: Uuid, partition_id: PartitionId, events: OneVec) -> Result<Transaction, TxError> {
        if unsafe { TX_REJECT } { Err(TxError) } else { Ok(Transaction { partition_key, partition_id, event: events.0 }) }
    }
}
pub struct ExecuteTransaction(pub Transaction);
impl ExecuteTransaction { pub fn new(t: Transaction) -> Self { ExecuteTransaction(t) } }
/// the append result of a single-event transaction: one (stream, version) entry, first == last sequence
pub struct StreamVersions { pub one: Option<(StreamId, u64)> }
impl Iterator for StreamVersions { type Item = (StreamId, u64); fn next(&mut self) -> Option<Self::Item> { self.one.take() } }
pub struct AppendResult { pub stream_versions: StreamVersions, pub first_partition_sequence: u64, pub last_partition_sequence: u64 }
pub static mut EXECUTED: Option<Transaction> = None;
pub static mut EXECUTED_N: u32 = 0;
pub struct ClusterRef { pub fail: bool, pub seq: u64, pub ver: u64 }
/// one `ask` per message type the handlers send; each records the message and answers with the harness-chosen reply
pub trait Ask { type Reply; fn deliver(self, c: &ClusterRef) -> Result<Self::Reply, ()>; }
impl ClusterRef { pub fn ask<M: Ask>(&self, m: M) -> Result<M::Reply, ()> { m.deliver(self) } }
impl Ask for ExecuteTransaction {
    type Reply = AppendResult;
    fn deliver(self, c: &ClusterRef) -> Result<AppendResult, ()> {
        unsafe { EXECUTED = Some(self.0); EXECUTED_N += 1; }
        if c.fail { Err(()) } else { Ok(AppendResult { stream_versions: StreamVersions { one: Some((self.0.event.stream_id, c.ver)) }, first_partition_sequence: c.seq, last_partition_sequence: c.seq }) }
    }
}
/// (stream or 255, partition, start, end, count) of the read the cluster was asked for, and how often
pub static mut ASKED: Option<(u8, u16, u64, Option<u64>, u64)> = None;
pub static mut ASKED_N: u32 = 0;
/// the cluster's reply to a read: `seq` events (tokens) and the has_more flag `fail == false && ver odd`
fn reply_events(c: &ClusterRef) -> vecmodel::IdVec<EventRecord> {
    let mut v = vecmodel::IdVec::new();
    let mut i = 0;
    while i < c.seq % 3 { v.push(EventRecord { offset: i, event_id: Uuid { hash: 1, tag: i as u8 }, partition_key: Uuid { hash: 1, tag: 0 }, partition_id: 1, transaction_id: Uuid { hash: 1, tag: 9 }, partition_sequence: i, stream_version: i, timestamp: 0, confirmation_count: 1, stream_id: StreamId(1), event_name: String(0), metadata: Bytes(0), payload: Bytes(0), size: 0 }); i += 1; }
    v
}
impl Ask for ReadStream {
    type Reply = StreamEvents;
    fn deliver(self, c: &ClusterRef) -> Result<StreamEvents, ()> {
        unsafe { ASKED = Some((self.stream_id.0, self.partition_id, self.start_version, self.end_version, self.count)); ASKED_N += 1; }
        if c.fail { Err(()) } else { Ok(StreamEvents { events: reply_events(c), has_more: c.ver & 1 == 1 }) }
    }
}
impl Ask for ReadPartition {
    type Reply = PartitionEvents;
    fn deliver(self, c: &ClusterRef) -> Result<PartitionEvents, ()> {
        unsafe { ASKED = Some((255, self.partition_id, self.start_sequence, self.end_sequence, self.count)); ASKED_N += 1; }
        if c.fail { Err(()) } else { Ok(PartitionEvents { events: reply_events(c), has_more: c.ver & 1 == 1 }) }
    }
}
pub struct Conn { pub num_partitions: u16, pub strict_versioning: bool, pub cluster_ref: ClusterRef }

// std types the extracted items name: Vec<u8> payloads are the `Bytes` token, Vec<PartitionId> a small array model
pub mod vecmodel {
    #[derive(Debug, Clone, PartialEq)]
    pub struct IdVec<T> { pub slots: [Option<T>; 5], pub n: usize }
    impl<T> IdVec<T> { pub fn new() -> Self { IdVec { slots: [const { None }; 5], n: 0 } } pub fn push(&mut self, v: T) { assert!(self.n < 5, "model capacity"); self.slots[self.n] = Some(v); self.n += 1; } pub fn iter(&self) -> impl Iterator<Item = &T> + '_ { self.slots[..self.n].iter().map(|s| s.as_ref().unwrap()) } }
    impl<T> FromIterator<T> for IdVec<T> { fn from_iter<I: IntoIterator<Item = T>>(it: I) -> Self { let mut v = IdVec::new(); for x in it { v.push(x); } v } }
}
pub type Vec<T> = <T as VecOf>::V;
pub trait VecOf { type V; }
impl VecOf for u8 { type V = Bytes; }
impl VecOf for u16 { type V = vecmodel::IdVec<u16>; }
impl VecOf for PartitionSelector { type V = vecmodel::IdVec<PartitionSelector>; }
impl VecOf for EventRecord { type V = vecmodel::IdVec<EventRecord>; }
macro_rules! vec { () => { vecmodel::IdVec::new() }; ($e:expr) => {{ let mut v = vecmodel::IdVec::new(); v.push($e); v }}; }

//@item EventRecord
//@item encode_event
//@item PartitionSelector
//@item PartitionSelector::into_partition_id
//@item PartitionRange
//@item PartitionRange::expand
//@item EAppend
//@item EAppendResp
//@item EAppendResp::from
impl EAppend {
//@item eappend_slice
}
//@item RangeValue
//@item ReadStream
//@item ReadPartition
//@item StreamEvents
//@item PartitionEvents
//@item EScan
//@item EScanResp
//@item EPScan
//@item EPScanResp
impl EScan {
//@item escan_slice
}
impl EPScan {
//@item epscan_slice
}

#[cfg(kani)]
mod verif {
    use super::*;

    /// `leaf` is the number floor(ns / 1_000_000), stated without a second division (two 64-bit dividers compared for equality did
    /// not come back from the SAT solver in 15 min)
    fn is_millis_of(leaf: Option<Leaf>, ns: u64) -> bool {
        match leaf { Some(Leaf::Num(ms)) => ms >= 0 && (ms as u64) <= u64::MAX / 1_000_000 && (ms as u64) * 1_000_000 <= ns && ns - (ms as u64) * 1_000_000 < 1_000_000, _ => false }
    }
    /// timestamps for the two frame harnesses: a boundary base plus 16 symbolic low bits (a fully symbolic 64-bit value makes the
    /// solver prove two multiplier circuits equivalent: no result in 25 min)
    fn any_timestamp() -> u64 {
        let bases: [u64; 8] = [0, 999_000, 1_000_000 - 40_000, 1_700_000_000_000_000_000, i64::MAX as u64 - 30_000, i64::MAX as u64 + 1, u64::MAX - 1_000_000, u64::MAX - 65_535];
        let i: usize = kani::any();
        kani::assume(i < 8);
        bases[i] + kani::any::<u16>() as u64
    }
    fn any_uuid() -> Uuid { Uuid { hash: kani::any(), tag: kani::any() } }

    #[kani::proof]
    fn eappend_request() {
        let req = EAppend {
            stream_id: StreamId(kani::any()), event_name: String(kani::any()),
            event_id: if kani::any() { Some(any_uuid()) } else { None },
            partition_key: if kani::any() { Some(any_uuid()) } else { None },
            expected_version: if kani::any() { ExpectedVersion::Any } else { ExpectedVersion::Exact(kani::any()) },
            timestamp: kani::any(), payload: Bytes(kani::any()), metadata: Bytes(kani::any()),
        };
        let mut conn = Conn { num_partitions: kani::any(), strict_versioning: false, cluster_ref: ClusterRef { fail: kani::any(), seq: kani::any(), ver: kani::any() } };
        kani::assume(conn.num_partitions >= 1);
        unsafe { EXECUTED = None; EXECUTED_N = 0; TX_REJECT = kani::any(); }
        let (ts_in, key_in, id_in, sid, parts) = (req.timestamp, req.partition_key, req.event_id, req.stream_id, conn.num_partitions);
        let (fail, seq, ver) = (conn.cluster_ref.fail, conn.cluster_ref.seq, conn.cluster_ref.ver);
        kani::cover!(ts_in.is_some() && ts_in.unwrap() > u64::MAX / 1_000_000, "reachable: a millisecond timestamp that does not fit into nanoseconds");
        kani::cover!(ts_in == Some(1_700_000_000_000) && !fail && unsafe { !TX_REJECT }, "reachable: an ordinary accepted append");
        let r = req.eappend_slice(&mut conn);
        let overflow = match ts_in { Some(ms) => ms > u64::MAX / 1_000_000, None => false };
        let executed = unsafe { EXECUTED };
        if overflow {
            assert!(r.is_err() && executed.is_none(), "a millisecond timestamp beyond the nanosecond range is an error and nothing is appended");
            return;
        }
        if unsafe { TX_REJECT } { assert!(r.is_err() && executed.is_none(), "an invalid transaction is an error reply"); return; }
        assert!(unsafe { EXECUTED_N } == 1, "exactly one transaction is executed");
        let tx = executed.unwrap();
        let key = key_in.unwrap_or(tx.partition_key);
        assert!(tx.partition_key == key, "the given partition key is used");
        assert!(tx.partition_id == uuid_to_partition_hash(key) % parts, "partition id == hash(partition key) % partitions");
        assert!(uuid_to_partition_hash(tx.event.event_id) == uuid_to_partition_hash(key) || id_in.is_some(), "a generated event id embeds the partition hash");
        if let Some(id) = id_in { assert!(tx.event.event_id == id, "the given event id is used"); }
        if let Some(ms) = ts_in { assert!(tx.event.timestamp == ms * 1_000_000, "the millisecond timestamp is stored in nanoseconds"); }
        assert!(tx.event.stream_id == sid);
        match r {
            Err(_) => assert!(fail, "an accepted append is answered with its result"),
            Ok(None) => assert!(false, "EAPPEND always answers"),
            Ok(Some(resp)) => {
                assert!(!fail);
                assert!(resp.partition_sequence == seq && resp.stream_version == ver, "the response reports the partition sequence and stream version of the append result");
                assert!(resp.event_id == tx.event.event_id && resp.partition_key == key && resp.partition_id == tx.partition_id && resp.timestamp == tx.event.timestamp, "ids, partition and timestamp of what was appended");
            }
        }
    }

    #[kani::proof]
    fn encode_event_fields() {
        let r = EventRecord { offset: kani::any(), event_id: any_uuid(), partition_key: any_uuid(), partition_id: kani::any(), transaction_id: any_uuid(), partition_sequence: kani::any(),
            stream_version: kani::any(), timestamp: any_timestamp(), confirmation_count: kani::any(), stream_id: StreamId(kani::any()), event_name: String(kani::any()), metadata: Bytes(kani::any()), payload: Bytes(kani::any()), size: kani::any() };
        kani::assume(r.partition_sequence <= i64::MAX as u64 && r.stream_version <= i64::MAX as u64);
        let f = encode_event(r.clone());
        assert!(f.n == 11, "eleven fields");
        assert!(f.get("event_id") == Some(Leaf::Simple(Tok::Uuid(r.event_id))));
        assert!(f.get("partition_key") == Some(Leaf::Simple(Tok::Uuid(r.partition_key))));
        assert!(f.get("transaction_id") == Some(Leaf::Simple(Tok::Uuid(r.transaction_id))));
        assert!(f.get("partition_id") == Some(Leaf::Num(r.partition_id as i64)));
        assert!(f.get("partition_sequence") == Some(Leaf::Num(r.partition_sequence as i64)) && (r.partition_sequence as i64) as u64 == r.partition_sequence, "the partition sequence is reported unchanged");
        assert!(f.get("stream_version") == Some(Leaf::Num(r.stream_version as i64)), "the stream version is reported unchanged");
        assert!(is_millis_of(f.get("timestamp"), r.timestamp), "timestamp in milliseconds");
        assert!(f.get("stream_id") == Some(Leaf::Blob(Tok::Stream(r.stream_id.0))));
        assert!(f.get("event_name") == Some(Leaf::Blob(Tok::Name(r.event_name.0))));
        assert!(f.get("metadata") == Some(Leaf::Blob(Tok::Blob(r.metadata.0))) && f.get("payload") == Some(Leaf::Blob(Tok::Blob(r.payload.0))), "metadata and payload under their own keys");
        assert!(f.key_at(0) == Leaf::Simple(Tok::Lit(lit("event_id"))) && f.key_at(10) == Leaf::Simple(Tok::Lit(lit("payload"))), "documented field order");
    }

    #[kani::proof]
    fn eappend_resp_fields() {
        let resp = EAppendResp { event_id: any_uuid(), partition_key: any_uuid(), partition_id: kani::any(), partition_sequence: kani::any(), stream_version: kani::any(), timestamp: any_timestamp() };
        kani::assume(resp.partition_sequence <= i64::MAX as u64 && resp.stream_version <= i64::MAX as u64);
        let (e, k, p, s, v, t) = (resp.event_id, resp.partition_key, resp.partition_id, resp.partition_sequence, resp.stream_version, resp.timestamp);
        let f: BytesFrame = resp.into();
        assert!(f.n == 6);
        assert!(f.get("event_id") == Some(Leaf::Simple(Tok::Uuid(e))) && f.get("partition_key") == Some(Leaf::Simple(Tok::Uuid(k))));
        assert!(f.get("partition_id") == Some(Leaf::Num(p as i64)));
        assert!(f.get("partition_sequence") == Some(Leaf::Num(s as i64)) && f.get("stream_version") == Some(Leaf::Num(v as i64)), "sequence and version under their own keys, unchanged");
        assert!(is_millis_of(f.get("timestamp"), t), "timestamp in milliseconds");
    }

    #[kani::proof]
    fn partition_selector() {
        let n: u16 = kani::any();
        kani::assume(n >= 1);
        let id: u16 = kani::any();
        assert!(PartitionSelector::ById(id).into_partition_id(n) == id, "a numeric partition id is used unchanged");
        let k = any_uuid();
        assert!(PartitionSelector::ByKey(k).into_partition_id(n) == uuid_to_partition_hash(k) % n, "a partition key selects hash(key) % partitions");
    }

    #[kani::proof]
    #[kani::unwind(8)]
    fn partition_range_expand() {
        let n: u16 = kani::any();
        kani::assume(n >= 1 && n <= 4);
        let (a, b): (u16, u16) = (kani::any(), kani::any());
        let r = PartitionRange::Range(a, b).expand(n);
        let (ca, cb) = (a.min(n - 1), b.min(n - 1));
        if ca <= cb {
            assert!(r.n == (cb - ca) as usize + 1, "a range holds every id from start to end");
            let mut i = 0; while i < r.n { assert!(r.slots[i] == Some(ca + i as u16), "ascending, gapless, clamped to the partition count"); i += 1; }
        } else { assert!(r.n == 0); }
        kani::cover!(r.n == 3, "reachable: a three-partition range");
        let all = PartitionRange::All.expand(n);
        assert!(all.n == n as usize);
        let mut i = 0; while i < all.n { assert!(all.slots[i] == Some(i as u16)); i += 1; }
        let (x, y): (u16, u16) = (kani::any(), kani::any());
        let s = PartitionRange::Single(PartitionSelector::ById(x)).expand(n);
        assert!(s.n == 1 && s.slots[0] == Some(x), "a single numeric partition is used unchanged");
        let mut l = vecmodel::IdVec::new(); l.push(PartitionSelector::ById(x)); l.push(PartitionSelector::ById(y));
        let e = PartitionRange::List(l).expand(n);
        assert!(e.n == 2 && e.slots[0] == Some(x) && e.slots[1] == Some(y), "a list keeps its order and values");
    }

    fn any_range() -> RangeValue { let k: u8 = kani::any(); if k % 3 == 0 { RangeValue::Start } else if k % 3 == 1 { RangeValue::End } else { RangeValue::Value(kani::any()) } }

    #[kani::proof]
    #[kani::unwind(5)]
    fn escan_request() {
        let req = EScan { stream_id: StreamId(kani::any()), start_version: any_range(), end_version: any_range(), partition_key: if kani::any() { Some(any_uuid()) } else { None }, count: kani::any() };
        let mut conn = Conn { num_partitions: kani::any(), strict_versioning: false, cluster_ref: ClusterRef { fail: kani::any(), seq: kani::any(), ver: kani::any() } };
        kani::assume(conn.num_partitions >= 1);
        unsafe { ASKED = None; ASKED_N = 0; }
        let (sid, start, end, key, count, parts) = (req.stream_id, req.start_version.clone(), req.end_version.clone(), req.partition_key, req.count, conn.num_partitions);
        let (fail, n_events, more) = (conn.cluster_ref.fail, conn.cluster_ref.seq % 3, conn.cluster_ref.ver & 1 == 1);
        kani::cover!(count == Some(0) && !fail && more, "reachable: COUNT 0 on a stream that has events");
        let r = req.escan_slice(&mut conn);
        if matches!(start, RangeValue::End) || matches!(end, RangeValue::Start) {
            assert!(r.is_err() && unsafe { ASKED_N } == 0, "`+` as start / `-` as end is an error; the cluster is not asked");
            return;
        }
        assert!(unsafe { ASKED_N } == 1, "the cluster is asked exactly once");
        let (a_sid, a_pid, a_start, a_end, a_count) = unsafe { ASKED }.unwrap();
        assert!(a_sid == sid.0 && a_start == (match start { RangeValue::Value(n) => n, _ => 0 }) && a_end == (match end { RangeValue::Value(n) => Some(n), _ => None }), "the range of the command, unchanged");
        assert!(a_count == count.unwrap_or(100), "the count of the command (100 when absent), unchanged");
        if let Some(k) = key { assert!(a_pid == uuid_to_partition_hash(k) % parts, "the partition of the given key"); }
        match r {
            Err(_) => assert!(fail),
            Ok(None) => assert!(false, "ESCAN always answers"),
            Ok(Some(resp)) => { assert!(!fail && resp.has_more == more && resp.events.n == n_events as usize, "the response carries the cluster's has_more flag and events unchanged: has_more never hides existing events"); }
        }
    }

    #[kani::proof]
    #[kani::unwind(5)]
    fn epscan_request() {
        let by_id: bool = kani::any();
        let (pid, key): (u16, Uuid) = (kani::any(), any_uuid());
        let req = EPScan { partition: if by_id { PartitionSelector::ById(pid) } else { PartitionSelector::ByKey(key) }, start_sequence: any_range(), end_sequence: any_range(), count: kani::any() };
        let mut conn = Conn { num_partitions: kani::any(), strict_versioning: false, cluster_ref: ClusterRef { fail: kani::any(), seq: kani::any(), ver: kani::any() } };
        kani::assume(conn.num_partitions >= 1);
        unsafe { ASKED = None; ASKED_N = 0; }
        let (start, end, count, parts) = (req.start_sequence.clone(), req.end_sequence.clone(), req.count, conn.num_partitions);
        let (fail, n_events, more) = (conn.cluster_ref.fail, conn.cluster_ref.seq % 3, conn.cluster_ref.ver & 1 == 1);
        kani::cover!(count == Some(0) && !fail && more, "reachable: COUNT 0 on a partition that has events");
        let r = req.epscan_slice(&mut conn);
        if matches!(start, RangeValue::End) || matches!(end, RangeValue::Start) {
            assert!(r.is_err() && unsafe { ASKED_N } == 0, "`+` as start / `-` as end is an error; the cluster is not asked");
            return;
        }
        assert!(unsafe { ASKED_N } == 1, "the cluster is asked exactly once");
        let (_, a_pid, a_start, a_end, a_count) = unsafe { ASKED }.unwrap();
        assert!(a_pid == if by_id { pid } else { uuid_to_partition_hash(key) % parts }, "the partition the command names: a numeric id unchanged, a key by its hash");
        assert!(a_start == (match start { RangeValue::Value(n) => n, _ => 0 }) && a_end == (match end { RangeValue::Value(n) => Some(n), _ => None }) && a_count == count.unwrap_or(100), "range and count of the command, unchanged");
        match r {
            Err(_) => assert!(fail),
            Ok(None) => assert!(false, "EPSCAN always answers"),
            Ok(Some(resp)) => { assert!(!fail && resp.has_more == more && resp.events.n == n_events as usize, "the response carries the cluster's has_more flag and events unchanged"); }
        }
    }
}
