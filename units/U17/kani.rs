// U17 (Kani) — the watermark gates of the cluster read handlers (C07), reached as SLICES (R5) of the actor methods
// `handle_partition_read_locally`, `handle_stream_read_locally` and `handle_local_read` in sierradb-cluster/src/read.rs: the
// statements from the gate computation to the reply are lifted verbatim into a function whose parameters are the free variables;
// R4 runs the spawned task in place and deletes `.await`. The environment (D4) is: a database iterator that yields ANY ascending,
// gapless sequence of events in any batching (C03's contract as an assumption), and a reply sink that records what was sent.
// The property is checked as the sink's postcondition: every event in a successful reply lies BELOW the confirmed watermark.
#![allow(unused, dead_code, static_mut_refs)]

/// D4: std Vec replaced by a fixed-capacity array model (the reply's event list); measured necessity: with std Vec the two
/// slice harnesses ran CBMC out of memory
#[derive(Debug)]
pub struct Vec<T> { pub slots: [Option<T>; 4], pub n: usize }
impl<T> Vec<T> {
    pub fn new() -> Self { Vec { slots: [const { None }; 4], n: 0 } }
    pub fn push(&mut self, v: T) { assert!(self.n < 4, "model capacity"); self.slots[self.n] = Some(v); self.n += 1; }
    pub fn len(&self) -> usize { self.n }
    pub fn last(&self) -> Option<&T> { if self.n == 0 { None } else { self.slots[self.n - 1].as_ref() } }
    pub fn at(&self, i: usize) -> &T { self.slots[i].as_ref().unwrap() }
}
pub type PartitionId = u16;
#[derive(Clone, Copy, Debug, PartialEq, Eq)]
pub struct StreamId(pub u8);
#[derive(Clone, Copy, Debug, PartialEq, Eq)]
pub struct Uuid(pub u8);
#[derive(Clone, Copy, Debug)]
pub enum IterDirection { Forward, Reverse }
//@item DEFAULT_BATCH_SIZE
//@item EventRecord
//@item PartitionEvents
//@item StreamEvents
#[derive(Debug)]
pub enum ClusterError { Read(String), NoAvailablePartitions }
#[derive(Debug)]
pub struct DbError;
impl DbError { pub fn to_string(&self) -> String { String::new() } }

/// the reply sink: records the reply (at most one)
pub struct ReplySender<T> { pub slot: *mut Option<T> }
impl<T> ReplySender<T> { pub fn send(self, v: T) { unsafe { assert!((*self.slot).is_none(), "at most one reply"); *self.slot = Some(v); } } }

/// the database iterator: yields events start, start+1, ... (gapless, ascending) of the partition, as one transaction group per
/// batch, group sizes chosen by the harness; for stream reads every event has an increasing stream_version as well.
/// Array-backed (no heap) to keep CBMC small.
pub const SCRIPT_LEN: usize = 3;
#[derive(Clone)]
pub struct Group { pub evs: [EventRecord; SCRIPT_LEN], pub lo: usize, pub hi: usize }
impl Iterator for Group { type Item = EventRecord; fn next(&mut self) -> Option<EventRecord> { if self.lo < self.hi { self.lo += 1; Some(self.evs[self.lo - 1].clone()) } else { None } } }
pub struct Batch { pub g: Option<Group> }
impl Iterator for Batch { type Item = Group; fn next(&mut self) -> Option<Group> { self.g.take() } }
pub struct Script { pub events: [EventRecord; SCRIPT_LEN], pub n: usize, pub cut1: usize, pub pos: usize }
pub struct DbIter { pub s: Script }
impl DbIter {
    pub fn next_batch(&mut self, limit: usize) -> Result<Option<Batch>, DbError> {
        if limit == 0 || self.s.pos >= self.s.n { return Ok(None); }
        let end = if self.s.pos < self.s.cut1 { self.s.cut1 } else { self.s.n };
        let g = Group { evs: self.s.events.clone(), lo: self.s.pos, hi: end };
        self.s.pos = end;
        Ok(Some(Batch { g: Some(g) }))
    }
}
pub struct Database { pub script: Option<Script> }
impl Database {
    pub fn read_partition(mut self, _p: PartitionId, _from: u64, _d: IterDirection) -> Result<DbIter, DbError> { Ok(DbIter { s: self.script.take().unwrap() }) }
    pub fn read_stream(mut self, _p: PartitionId, _s: StreamId, _from: u64, _d: IterDirection) -> Result<DbIter, DbError> { Ok(DbIter { s: self.script.take().unwrap() }) }
}

//@item partition_read_slice
//@item stream_read_slice

#[cfg(kani)]
mod verif {
    use super::*;

    fn ev(seq: u64, ver: u64) -> EventRecord { EventRecord { partition_sequence: seq, stream_version: ver } }
    /// up to 3 events with gapless ascending partition sequences from `start` (stream versions ascending from `v0`), in 1 or 2 batches
    fn any_script(start: u64, v0: u64) -> Script {
        let n: usize = kani::any();
        let cut1: usize = kani::any();
        kani::assume(n <= SCRIPT_LEN && cut1 >= 1 && cut1 <= n.max(1));
        Script { events: [ev(start, v0), ev(start + 1, v0 + 1), ev(start + 2, v0 + 2)], n, cut1, pos: 0 }
    }

    /// ReadPartition: every returned event is below the watermark; events are the gapless prefix from start; count respected
    #[kani::proof]
    #[kani::unwind(6)]
    fn gate_partition_read() {
        let start: u64 = kani::any();
        let watermark: u64 = kani::any();
        let count: u64 = kani::any();
        let end_sequence: Option<u64> = kani::any();
        kani::assume(start < u64::MAX - 8 && watermark < u64::MAX - 8);
        let mut slot: Option<Result<PartitionEvents, ClusterError>> = None;
        let db = Database { script: Some(any_script(start, 0)) };
        partition_read_slice(db, 3, start, end_sequence, watermark, count, ReplySender { slot: &mut slot });
        match slot {
            Some(Ok(pe)) => {
                assert!(pe.events.len() as u64 <= count, "no more than `count` events");
                let mut i = 0;
                while i < pe.events.len() {
                    assert!(pe.events.at(i).partition_sequence == start + i as u64, "events are returned in order, gapless from the start sequence");
                    assert!(pe.events.at(i).partition_sequence < watermark, "only events BELOW the confirmed watermark are revealed");
                    if let Some(e) = end_sequence { assert!(pe.events.at(i).partition_sequence <= e, "not beyond the requested end"); }
                    i += 1;
                }
            }
            Some(Err(_)) => { assert!(false, "the model database does not fail"); }
            None => { assert!(false, "exactly one reply is sent"); }
        }
    }

    /// ReadStream: every returned event is below the partition's watermark
    #[kani::proof]
    #[kani::unwind(6)]
    fn gate_stream_read() {
        let pstart: u64 = kani::any();
        let v0: u64 = kani::any();
        let watermark: u64 = kani::any();
        let count: u64 = kani::any();
        let end_version: Option<u64> = kani::any();
        kani::assume(pstart < u64::MAX - 8 && v0 < u64::MAX - 8);
        let mut slot: Option<Result<StreamEvents, ClusterError>> = None;
        let db = Database { script: Some(any_script(pstart, v0)) };
        stream_read_slice(db, 3, StreamId(1), v0, end_version, watermark, count, ReplySender { slot: &mut slot });
        match slot {
            Some(Ok(se)) => {
                assert!(se.events.len() as u64 <= count);
                let mut i = 0;
                while i < se.events.len() {
                    assert!(se.events.at(i).stream_version == v0 + i as u64, "versions ascending without gaps");
                    assert!(se.events.at(i).partition_sequence < watermark, "only events BELOW the confirmed watermark are revealed");
                    i += 1;
                }
            }
            Some(Err(_)) => { assert!(false); }
            None => { assert!(false, "exactly one reply is sent"); }
        }
    }
}
