// U17 (Kani) — the watermark gates of the cluster read handlers (C07), reached as SLICES (R5) of the actor methods
// `handle_partition_read_locally`, `handle_stream_read_locally` and `handle_local_read` in sierradb-cluster/src/read.rs: the
// statements from the gate computation to the reply are lifted verbatim into a function whose parameters are the free variables;
// R4 runs the spawned task in place and deletes `.await`. The environment (D4) is: a database iterator that yields ANY ascending,
// gapless sequence of events in any batching (C03's contract as an assumption), and a reply sink that records what was sent.
// The property is checked as the sink's postcondition: every event in a successful reply lies BELOW the confirmed watermark.
#![allow(unused, dead_code, static_mut_refs)]

/// D4: std Vec replaced by a fixed-capacity array model (the reply's event list); measured necessity: with std Vec the two
/// slice harnesses ran CBMC out of memory
#[derive(Debug)]
pub struct Vec<T> { pub slots: [Option<T>; 4], pub n: usize }
impl<T> Vec<T> {
    pub fn new() -> Self { Vec { slots: [const { None }; 4], n: 0 } }
    pub fn push(&mut self, v: T) { assert!(self.n < 4, "model capacity"); self.slots[self.n] = Some(v); self.n += 1; }
    pub fn len(&self) -> usize { self.n }
    pub fn last(&self) -> Option<&T> { if self.n == 0 { None } else { self.slots[self.n - 1].as_ref() } }
    pub fn at(&self, i: usize) -> &T { self.slots[i].as_ref().unwrap() }
}
pub type PartitionId = u16;
#[derive(Clone, Copy, Debug, PartialEq, Eq)]
pub struct StreamId(pub u8);
#[derive(Clone, Copy, Debug, PartialEq, Eq)]
pub struct Uuid(pub u8);
#[derive(Clone, Copy, Debug)]
pub enum IterDirection { Forward, Reverse }
//@item DEFAULT_BATCH_SIZE
//@item EventRecord
//@item PartitionEvents
//@item StreamEvents
//@item GetPartitionSequence
//@item GetStreamVersion
/// kameo's reply context, reduced to `reply` (an immediate answer). A handler that falls through to the forwarding path is
/// represented by the slice's tail value `NotAnsweredLocally`.
pub struct Ctx;
#[derive(Debug)]
pub enum Replied { Now(Result<Option<u64>, ClusterError>), NotAnsweredLocally }
impl Ctx { pub fn reply(&mut self, v: Result<Option<u64>, ClusterError>) -> Replied { Replied::Now(v) } }
#[derive(Debug)]
pub enum ClusterError { Read(String), NoAvailablePartitions }
#[derive(Debug)]
pub struct DbError;
impl DbError { pub fn to_string(&self) -> String { String::new() } }

/// the reply sink: records the reply (at most one)
pub struct ReplySender<T> { pub slot: *mut Option<T> }
impl<T> ReplySender<T> { pub fn send(self, v: T) { unsafe { assert!((*self.slot).is_none(), "at most one reply"); *self.slot = Some(v); } } }

/// the database iterator: yields events start, start+1, ... (gapless, ascending) of the partition, as one transaction group per
/// batch, group sizes chosen by the harness; for stream reads every event has an increasing stream_version as well.
/// Array-backed (no heap) to keep CBMC small.
pub const SCRIPT_LEN: usize = 3;
#[derive(Clone)]
pub struct Group { pub evs: [EventRecord; SCRIPT_LEN], pub lo: usize, pub hi: usize }
impl Iterator for Group { type Item = EventRecord; fn next(&mut self) -> Option<EventRecord> { if self.lo < self.hi { self.lo += 1; Some(self.evs[self.lo - 1].clone()) } else { None } } }
pub struct Batch { pub g: Option<Group> }
impl Iterator for Batch { type Item = Group; fn next(&mut self) -> Option<Group> { self.g.take() } }
pub struct Script { pub events: [EventRecord; SCRIPT_LEN], pub n: usize, pub cut1: usize, pub pos: usize, pub rev: bool }
pub struct DbIter { pub s: Script }
impl DbIter {
    pub fn next_batch(&mut self, limit: usize) -> Result<Option<Batch>, DbError> {
        if limit == 0 || self.s.pos >= self.s.n { return Ok(None); }
        if self.s.rev {
            // reverse scan: `events` is ascending, the transactions are [0, cut1) and [cut1, n). The k-th group is read at the offset
            // of the k-th NEWEST event and holds that event and the later events of ITS transaction (a group may repeat events).
            let idx = self.s.n - 1 - self.s.pos;
            let hi = if idx < self.s.cut1 { self.s.cut1 } else { self.s.n };
            self.s.pos += 1;
            return Ok(Some(Batch { g: Some(Group { evs: self.s.events.clone(), lo: idx, hi }) }));
        }
        let end = if self.s.pos < self.s.cut1 { self.s.cut1 } else { self.s.n };
        let g = Group { evs: self.s.events.clone(), lo: self.s.pos, hi: end };
        self.s.pos = end;
        Ok(Some(Batch { g: Some(g) }))
    }
}
pub struct Database { pub script: std::cell::RefCell<Option<Script>> }
/// the handler clones the database handle before reading: the clone carries the script
impl Clone for Database { fn clone(&self) -> Self { Database { script: std::cell::RefCell::new(self.script.borrow_mut().take()) } } }
/// the actor, reduced to what the two handlers read: the database handle and the per-partition confirmed watermarks
pub struct Wm { pub v: u64 }
impl Wm { pub fn get(&self) -> u64 { self.v } }
impl Clone for Wm { fn clone(&self) -> Self { Wm { v: self.v } } }
pub struct Watermarks { pub pid: PartitionId, pub w: Option<Wm> }
impl Watermarks { pub fn get(&self, p: &PartitionId) -> Option<&Wm> { if *p == self.pid { self.w.as_ref() } else { None } } }
pub struct ClusterActor { pub database: Database, pub watermarks: Watermarks, pub replication_factor: u8, pub local_peer_id: u8 }
/// event lookup environment: the request metadata, the forwarding step (recorded), the replica list (opaque)
pub struct PeerSet; impl PeerSet { pub fn insert(&mut self, _p: u8) -> bool { true } }
pub struct ReadRequestMetadata { pub tried_peers: PeerSet, pub not_found_count: u8 }
pub struct ReplicaRefs;
pub static mut FORWARDED: u32 = 0;
impl ClusterActor { pub fn try_next_replica_for_not_found(_r: ReplicaRefs, _e: Uuid, _m: ReadRequestMetadata, _q: u8, _s: ReplySender<Result<Option<EventRecord>, ClusterError>>) { unsafe { FORWARDED += 1; } } }
impl Database {
    pub fn read_partition(mut self, _p: PartitionId, _from: u64, _d: IterDirection) -> Result<DbIter, DbError> { Ok(DbIter { s: self.script.borrow_mut().take().unwrap() }) }
    pub fn read_event(self, _p: PartitionId, _e: Uuid) -> Result<Option<EventRecord>, DbError> { Ok(self.script.borrow_mut().take().and_then(|s| if s.n > 0 { Some(s.events[0].clone()) } else { None })) }
    pub fn read_stream(mut self, _p: PartitionId, _s: StreamId, _from: u64, _d: IterDirection) -> Result<DbIter, DbError> { Ok(DbIter { s: self.script.borrow_mut().take().unwrap() }) }
}

impl ClusterActor {
//@item partition_read_slice
//@item stream_read_slice
//@item local_read_slice
//@item partition_sequence_slice
//@item stream_version_slice
}

#[cfg(kani)]
mod verif {
    use super::*;

    fn ev(seq: u64, ver: u64) -> EventRecord { EventRecord { partition_sequence: seq, stream_version: ver, confirmation_count: 3 } }
    /// up to 3 events with gapless ascending partition sequences from `start` (stream versions ascending from `v0`), in 1 or 2 batches
    fn any_script(start: u64, v0: u64) -> Script {
        let n: usize = kani::any();
        let cut1: usize = kani::any();
        kani::assume(n <= SCRIPT_LEN && cut1 >= 1 && cut1 <= n.max(1));
        Script { events: [ev(start, v0), ev(start + 1, v0 + 1), ev(start + 2, v0 + 2)], n, cut1, pos: 0, rev: false }
    }

    /// ReadPartition: every returned event is below the watermark; events are the gapless prefix from start; count respected
    #[kani::proof]
    #[kani::unwind(6)]
    fn gate_partition_read() {
        let start: u64 = kani::any();
        let watermark: u64 = kani::any();
        let count: u64 = kani::any();
        let end_sequence: Option<u64> = kani::any();
        kani::assume(start < u64::MAX - 8 && watermark < u64::MAX - 8);
        let mut slot: Option<Result<PartitionEvents, ClusterError>> = None;
        // a partition without a watermark entry has watermark 0
        let actor = ClusterActor { database: Database { script: std::cell::RefCell::new(Some(any_script(start, 0))) }, watermarks: Watermarks { pid: 3, w: if watermark == 0 && kani::any() { None } else { Some(Wm { v: watermark }) } }, replication_factor: 3, local_peer_id: 1 };
        actor.partition_read_slice(3, start, end_sequence, count, ReplySender { slot: &mut slot });
        match slot {
            Some(Ok(pe)) => {
                kani::cover!(pe.events.len() >= 2, "reachable: a reply with two events");
                assert!(pe.events.len() as u64 <= count, "no more than `count` events");
                let mut i = 0;
                while i < pe.events.len() {
                    assert!(pe.events.at(i).partition_sequence == start + i as u64, "events are returned in order, gapless from the start sequence");
                    assert!(pe.events.at(i).partition_sequence < watermark, "only events BELOW the confirmed watermark are revealed");
                    if let Some(e) = end_sequence { assert!(pe.events.at(i).partition_sequence <= e, "not beyond the requested end"); }
                    i += 1;
                }
            }
            Some(Err(_)) => { assert!(false, "the model database does not fail"); }
            None => { assert!(false, "exactly one reply is sent"); }
        }
    }

    /// ReadStream: every returned event is below the partition's watermark
    #[kani::proof]
    #[kani::unwind(6)]
    fn gate_stream_read() {
        let pstart: u64 = kani::any();
        let v0: u64 = kani::any();
        let watermark: u64 = kani::any();
        let count: u64 = kani::any();
        let end_version: Option<u64> = kani::any();
        kani::assume(pstart < u64::MAX - 8 && v0 < u64::MAX - 8);
        let mut slot: Option<Result<StreamEvents, ClusterError>> = None;
        let actor = ClusterActor { database: Database { script: std::cell::RefCell::new(Some(any_script(pstart, v0))) }, watermarks: Watermarks { pid: 3, w: if watermark == 0 && kani::any() { None } else { Some(Wm { v: watermark }) } }, replication_factor: 3, local_peer_id: 1 };
        actor.stream_read_slice(3, StreamId(1), v0, end_version, count, ReplySender { slot: &mut slot });
        match slot {
            Some(Ok(se)) => {
                kani::cover!(se.events.len() >= 2, "reachable: a reply with two events");
                assert!(se.events.len() as u64 <= count);
                let mut i = 0;
                while i < se.events.len() {
                    assert!(se.events.at(i).stream_version == v0 + i as u64, "versions ascending without gaps");
                    assert!(se.events.at(i).partition_sequence < watermark, "only events BELOW the confirmed watermark are revealed");
                    i += 1;
                }
            }
            Some(Err(_)) => { assert!(false); }
            None => { assert!(false, "exactly one reply is sent"); }
        }
    }

    /// ReadEvent (local path): an event is revealed only if it is quorum-confirmed AND below the confirmed watermark
    #[kani::proof]
    #[kani::unwind(4)]
    fn gate_event_lookup() {
        let stored: bool = kani::any();
        let e = EventRecord { partition_sequence: kani::any(), stream_version: kani::any(), confirmation_count: kani::any() };
        kani::assume(e.partition_sequence < u64::MAX);
        let rf: u8 = kani::any();
        kani::assume(rf >= 1 && rf <= 12);
        let quorum = rf / 2 + 1;
        let wm: Option<u64> = kani::any();
        let nf: u8 = kani::any();
        kani::assume(nf < 200);
        let script = Script { events: [e.clone(), e.clone(), e.clone()], n: if stored { 1 } else { 0 }, cut1: 1, pos: 0, rev: false };
        let actor = ClusterActor { database: Database { script: std::cell::RefCell::new(Some(script)) }, watermarks: Watermarks { pid: 3, w: wm.map(|v| Wm { v }) }, replication_factor: rf, local_peer_id: 1 };
        let mut slot: Option<Result<Option<EventRecord>, ClusterError>> = None;
        unsafe { FORWARDED = 0; }
        kani::cover!(stored && e.confirmation_count >= quorum && wm.is_some() && e.partition_sequence >= wm.unwrap(), "reachable: a quorum-confirmed event beyond the watermark");
        actor.local_read_slice(3, Uuid(1), ReadRequestMetadata { tried_peers: PeerSet, not_found_count: nf }, ReplicaRefs, ReplySender { slot: &mut slot });
        let visible = stored && e.confirmation_count >= quorum && e.partition_sequence < wm.unwrap_or(0);
        match slot {
            Some(Ok(Some(got))) => { assert!(visible && got.partition_sequence == e.partition_sequence && unsafe { FORWARDED } == 0, "an event is revealed only if it carries a quorum confirmation count AND lies below the confirmed watermark"); }
            Some(Ok(None)) => { assert!(!visible && unsafe { FORWARDED } == 0 && nf + 1 >= quorum, "`not found` only once a quorum of replicas did not have it"); }
            Some(Err(_)) => { assert!(false, "no error on a healthy store"); }
            None => { assert!(!visible && unsafe { FORWARDED } == 1, "otherwise the request is forwarded to the next replica, once"); }
        }
    }

    /// GetPartitionSequence: the last confirmed sequence of a locally owned partition is watermark - 1 (None for watermark 0)
    #[kani::proof]
    fn gate_partition_sequence() {
        let wm: Option<u64> = kani::any();
        let pid: PartitionId = kani::any();
        let actor = ClusterActor { database: Database { script: std::cell::RefCell::new(None) }, watermarks: Watermarks { pid: 3, w: wm.map(|v| Wm { v }) }, replication_factor: 3, local_peer_id: 1 };
        let mut ctx = Ctx;
        kani::cover!(pid == 3 && wm == Some(0), "reachable: an owned partition with nothing confirmed");
        match actor.partition_sequence_slice(GetPartitionSequence { partition_id: pid }, &mut ctx) {
            Replied::Now(Ok(Some(s))) => { assert!(pid == 3 && wm.is_some() && s < wm.unwrap() && s + 1 == wm.unwrap(), "the sequence reported is the last one BELOW the confirmed watermark"); }
            Replied::Now(Ok(None)) => { assert!(pid == 3 && wm == Some(0), "`no events` only when nothing is confirmed"); }
            Replied::Now(Err(_)) => { assert!(false, "no error for an owned partition"); }
            Replied::NotAnsweredLocally => { assert!(pid != 3 || wm.is_none(), "an owned partition is answered from its watermark"); }
        }
    }

    /// GetStreamVersion: the version reported is the highest stream version among the events BELOW the watermark
    #[kani::proof]
    #[kani::unwind(6)]
    fn gate_stream_version() {
        // the stream's events in ascending order, as two transactions [0, cut1) and [cut1, n); sequences strictly ascending with gaps
        // (events of other streams in between), versions gapless
        let n: usize = kani::any();
        let cut1: usize = kani::any();
        kani::assume(n <= SCRIPT_LEN && cut1 <= n);
        let s0: u64 = kani::any();
        let v0: u64 = kani::any();
        kani::assume(s0 < u64::MAX - 16 && v0 < u64::MAX - 16);
        let d1: u64 = kani::any(); let d2: u64 = kani::any();
        kani::assume(d1 >= 1 && d1 <= 3 && d2 > d1 && d2 <= 6);
        let asc = [ev(s0, v0), ev(s0 + d1, v0 + 1), ev(s0 + d2, v0 + 2)];
        let script = Script { events: asc.clone(), n, cut1, pos: 0, rev: true };
        let watermark: u64 = kani::any();
        let actor = ClusterActor { database: Database { script: std::cell::RefCell::new(Some(script)) }, watermarks: Watermarks { pid: 3, w: Some(Wm { v: watermark }) }, replication_factor: 3, local_peer_id: 1 };
        kani::cover!(n == 3 && cut1 == 1 && watermark > s0 + d2, "reachable: a two-event transaction is the newest one and fully confirmed");
        kani::cover!(n == 3 && watermark == s0 + d1, "reachable: watermark inside the history");
        let wm = Wm { v: watermark };
        let r = actor.stream_version_slice(GetStreamVersion { partition_id: 3, stream_id: StreamId(1) }, &wm);
        // expected: the newest event below the watermark
        let mut expect: Option<u64> = None;
        let mut k = 0;
        while k < n { if asc[k].partition_sequence < watermark { expect = Some(asc[k].stream_version); } k += 1; }
        match r {
            Ok(got) => { assert!(got == expect, "the stream version reported is the highest version among the events below the confirmed watermark (None iff there is none)"); }
            Err(_) => { assert!(false, "no error on a healthy store"); }
        }
    }
}
