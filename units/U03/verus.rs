// U03 (Verus) — seglog ReadAheadBuf::{overlaps, invalidate, read, fill} with the REAL constants (64 KiB window, 4 KiB pages):
// provenance contract of C18. inv(b, disk, flushed): the cache holds only bytes below the flushed offset that was loaded when
// it was filled, and they equal the file. Bytes below the flushed offset are immutable (writer side: units/U02), so a cache
// hit can never be stale and never exposes unflushed bytes.
#![feature(allocator_api)]
use vstd::prelude::*;
verus! {
global size_of usize == 8;

// ---------------- environment (D4) ----------------
pub mod io {
    use vstd::prelude::*;
    pub struct Error { pub kind: ErrorKind }
    #[derive(Clone, Copy, PartialEq, Eq)]
    pub enum ErrorKind { UnexpectedEof, InvalidData, InvalidInput, Other }
    impl Error {
        pub fn new(kind: ErrorKind, _msg: &str) -> (r: Error) ensures r.kind == kind { Error { kind } }
    }
}
pub enum ReadError { Io(io::Error), Other }
/// thiserror's #[from] conversion (derive dropped, D1); `.into()` is renamed to this function (R8)
pub fn io_error_into(e: io::Error) -> (r: ReadError) ensures r == ReadError::Io(e) { ReadError::Io(e) }
impl vstd::std_specs::convert::FromSpecImpl<io::Error> for ReadError {
    open spec fn obeys_from_spec() -> bool { true }
    open spec fn from_spec(e: io::Error) -> Self { ReadError::Io(e) }
}
impl From<io::Error> for ReadError { fn from(e: io::Error) -> Self { ReadError::Io(e) } }

#[verifier::external_body]
pub struct File { f: std::fs::File }
impl File {
    /// per-call snapshot of the file contents (the file is reached through `&File`)
    pub uninterp spec fn disk(&self) -> Seq<u8>;
    /// no I/O error occurs on this handle (a healthy disk): read_at then always succeeds
    pub uninterp spec fn healthy(&self) -> bool;
    /// FileExt::read_at: reads up to buf.len() bytes at `offset`; 0 only at / beyond end of file
    #[verifier::external_body]
    pub fn read_at(&self, buf: &mut [u8], offset: u64) -> (r: Result<usize, io::Error>)
        ensures
            final(buf)@.len() == old(buf)@.len(),
            self.healthy() ==> r is Ok,
            r is Ok ==> r->Ok_0 <= old(buf)@.len() && offset + r->Ok_0 <= self.disk().len()
                && (forall|i: int| 0 <= i < r->Ok_0 ==> final(buf)@[i] == self.disk()[offset + i])
                && (forall|i: int| r->Ok_0 <= i < old(buf)@.len() ==> final(buf)@[i] == old(buf)@[i])
                && (r->Ok_0 == 0 ==> (old(buf)@.len() == 0 || offset >= self.disk().len())),
    { unimplemented!() }
}

/// R10: `&mut v[a..]` (std IndexMut<RangeFrom<usize>>): the parent is its untouched prefix followed by the returned tail
#[verifier::external_body]
pub fn slice_tail_mut<'a>(v: &'a mut Vec<u8>, a: usize) -> (s: &'a mut [u8])
    requires a <= old(v)@.len(),
    ensures s@ == old(v)@.subrange(a as int, old(v)@.len() as int),
            final(v)@ == old(v)@.subrange(0, a as int) + final(s)@,
{ unimplemented!() }

pub assume_specification<T, A: core::alloc::Allocator>[Vec::<T, A>::shrink_to_fit](v: &mut Vec<T, A>)
    ensures final(v)@ == old(v)@;

//@item PAGE_SIZE
//@item READ_AHEAD_SIZE
//@item ReadAheadBuf

pub open spec fn rab_inv(b: &ReadAheadBuf, disk: Seq<u8>, flushed: u64) -> bool {
    &&& b.valid_len <= b.buf@.len()
    &&& b.offset + b.valid_len <= flushed
    &&& b.offset + b.valid_len <= disk.len()
    &&& forall|i: int| 0 <= i < b.valid_len ==> b.buf@[i] == disk[b.offset + i]
}

/// page rounding of `fill`: the buffer is at least as long as requested
pub proof fn lemma_page_round(x: usize)
    requires x <= 0x7fff_ffff_ffff,
    ensures ((x + 4095) as usize & !4095usize) >= x, ((x + 4095) as usize & !4095usize) <= x + 4095,
{
    assert(((x + 4095) as usize & !4095usize) >= x && ((x + 4095) as usize & !4095usize) <= x + 4095) by (bit_vector)
        requires x <= 0x7fff_ffff_ffffusize;
}

//@item ReadAheadBuf::overlaps
//@item ReadAheadBuf::invalidate
//@item ReadAheadBuf::read
//@item ReadAheadBuf::fill

}
fn main() {}
