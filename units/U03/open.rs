// U03/open (Verus) — seglog Writer::open: the recovery scan. The reader is a callee behind its contract (D4): read_record
// returns what `scan_at(snapshot, offset)` prescribes for the file contents the reader sees. The postcondition is the property's
// clause: a reopened writer resumes exactly after the last record the reader accepts, scanning from the start offset, for
// EVERY file content (every truncation length, every corruption), with flushed offset and file cursor at that position.
use vstd::prelude::*;
verus! {
global size_of usize == 8;

// ---------------- environment (D4) ----------------
pub mod io {
    pub struct Error { pub code: u8 }
}
pub struct Path;
pub struct File;
pub struct OpenOptions;
impl OpenOptions {
    pub fn new() -> OpenOptions { OpenOptions }
    pub fn read(&mut self, _b: bool) -> &mut OpenOptions { self }
    pub fn write(&mut self, _b: bool) -> &mut OpenOptions { self }
    #[verifier::external_body]
    /// ENVIRONMENT: the segment file exists and can be opened (healthy disk)
    pub fn open<P: AsRef<Path>>(&self, _p: P) -> (r: Result<File, io::Error>) ensures r is Ok { unimplemented!() }
}
pub enum SeekFrom { Start(u64) }
pub struct BufWriter<W> { pub inner: W, pub cap: usize, pub cursor: u64, pub buffered: usize }
impl BufWriter<File> {
    pub fn with_capacity(cap: usize, inner: File) -> (r: BufWriter<File>) ensures r.cursor == 0, r.buffered == 0 { BufWriter { inner, cap, cursor: 0, buffered: 0 } }
    #[verifier::external_body]
    pub fn seek(&mut self, to: SeekFrom) -> (r: Result<u64, io::Error>)
        ensures r is Ok, final(self).buffered == 0 && final(self).cursor == (match to { SeekFrom::Start(o) => o }),
    { unimplemented!() }
}
#[derive(Clone, Copy)]
pub enum ReadHint { Random, Sequential }
pub enum ReadError {
    Crc32cMismatch { offset: u64 },
    OutOfBounds { offset: u64, length: usize, flushed_offset: u64 },
    TruncationMarker { offset: u64 },
    ReplaceLengthMismatch { existing_length: usize, new_length: usize },
    Io(io::Error),
}
pub enum WriteError { SegmentFull { attempted: u64, available: u64 }, Read(ReadError), Io(io::Error) }
impl vstd::std_specs::convert::FromSpecImpl<io::Error> for WriteError {
    open spec fn obeys_from_spec() -> bool { true }
    open spec fn from_spec(e: io::Error) -> Self { WriteError::Io(e) }
}
impl From<io::Error> for WriteError { fn from(e: io::Error) -> Self { WriteError::Io(e) } }
impl vstd::std_specs::convert::FromSpecImpl<ReadError> for WriteError {
    open spec fn obeys_from_spec() -> bool { true }
    open spec fn from_spec(e: ReadError) -> Self { WriteError::Read(e) }
}
impl From<ReadError> for WriteError { fn from(e: ReadError) -> Self { WriteError::Read(e) } }

pub struct Record { pub offset: u64, pub len: usize }
/// what the reader finds at an offset of the file it has open: Some(len) for an intact record (CRC gate passed), or the kind of stop
pub enum Found { Rec(usize), Crc, Oob, Marker, IoErr }
/// the contents of the one segment file of this unit, as the reader sees it when the writer is reopened
pub uninterp spec fn disk_len() -> nat;
pub uninterp spec fn disk_found(offset: u64) -> Found;
#[verifier::external_body]
pub struct Reader<const H: usize> { r: u8 }
impl<const H: usize> Reader<H> {
    #[verifier::external_body]
    pub fn open<P: AsRef<Path>>(_p: P, _fo: Option<FlushedOffset>) -> (r: Result<Reader<H>, ReadError>) ensures r is Ok { unimplemented!() }
    /// the reader's contract (units/U02: parse_record's CRC gate and layout; the Reader paths agree with it)
    #[verifier::external_body]
    pub fn read_record(&mut self, offset: u64, hint: ReadHint) -> (r: Result<Record, ReadError>)
        ensures
            match disk_found(offset) {
                Found::Rec(n) => r is Ok && r->Ok_0.len == n && r->Ok_0.offset == offset && n >= 8 && offset + n <= disk_len() && disk_len() <= 0x7fff_ffff_ffff,
                Found::Crc => r is Err && r->Err_0 is Crc32cMismatch,
                Found::Oob => r is Err && r->Err_0 is OutOfBounds,
                Found::Marker => r is Err && r->Err_0 is TruncationMarker,
                Found::IoErr => r is Err && r->Err_0 is Io,
            },
    { unimplemented!() }
}
#[verifier::external_body]
pub struct FlushedOffset { a: u8 }
impl FlushedOffset {
    pub uninterp spec fn value(&self) -> u64;
    #[verifier::external_body]
    pub fn new(offset: u64) -> (r: FlushedOffset) ensures r.value() == offset { unimplemented!() }
}

//@item WRITE_BUF_SIZE
//@item Writer

/// end of the maximal run of intact records starting at `from`
pub open spec fn scan_end(from: u64) -> u64
    decreases disk_len() - from
{
    match disk_found(from) {
        Found::Rec(n) => if n >= 8 && from + n <= disk_len() && disk_len() <= 0x7fff_ffff_ffff { scan_end((from + n) as u64) } else { from },
        _ => from,
    }
}
/// does the scan from `from` stop at an I/O error?
pub open spec fn scan_hits_io_error(from: u64) -> bool
    decreases disk_len() - from
{
    match disk_found(from) {
        Found::Rec(n) => if n >= 8 && from + n <= disk_len() && disk_len() <= 0x7fff_ffff_ffff { scan_hits_io_error((from + n) as u64) } else { false },
        Found::IoErr => true,
        _ => false,
    }
}

//@item Writer::open

}
fn main() {}
