// U05 (Verus) — the two public bucket helpers of sierradb::id against the routing the database performs.
// `uuid_to_partition_hash` is a callee behind its contract here (its bit-level definition is proved in the Kani
// rendering of this unit); `Uuid` is opaque.
use vstd::prelude::*;
use vstd::arithmetic::div_mod::*;
verus! {

//@item BucketId
//@item PartitionHash
//@item PartitionId

#[verifier::external_body]
#[derive(Clone, Copy)]
pub struct Uuid { b: [u8; 16] }
pub uninterp spec fn hash_of(u: Uuid) -> u16;

#[verifier::external_body]
pub fn uuid_to_partition_hash(uuid: Uuid) -> (r: PartitionHash)
    ensures r == hash_of(uuid),
{ unimplemented!() }

//@item extract_event_id_bucket
//@item partition_id_to_bucket

/// "Events, streams and partitions derived from the same partition key always route to the same partition
/// and bucket": the database stores partition `hash % P` in bucket `(hash % P) % B`; the id-based helper must agree.
fn bucket_helpers_agree(id: Uuid, p: u16, b: u16)
    requires
        0 < b <= p,
//@carve KF-C23-bucket-helpers         p % b == 0,
{
    let part = uuid_to_partition_hash(id) % p;
    let via_partition = partition_id_to_bucket(part, b);
    let via_id = extract_event_id_bucket(id, b);
    proof {
        if p % b == 0 {
            // (h % (b*k)) % b == h % b
            let k = p as int / b as int;
            lemma_fundamental_div_mod(p as int, b as int);
            assert(p as int == b as int * k);
            lemma_mod_mod(hash_of(id) as int, b as int, k);
        }
    }
    assert(via_id == via_partition);
}

}
fn main() {}
