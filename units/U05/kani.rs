// U05 (Kani) — sierradb::id (entire) and Transaction::new against the real `uuid` and `smallvec` crates.
// R1 turns the wall clock and the RNG draws into unconstrained symbolic values, so every harness below
// is over ALL time bits and ALL random bits. All id.rs harnesses are loop-free over full-domain inputs:
// complete proofs, not bounded ones. Transaction::new is bounded in the NUMBER of events only (<= 4).
#![allow(unused, dead_code)]
use smallvec::SmallVec;
use uuid::Uuid;

#[cfg(kani)]
pub fn verif_any<T: kani::Arbitrary>() -> T { kani::any() }
#[cfg(not(kani))]
pub fn verif_any<T>() -> T { unimplemented!() }
#[cfg(kani)]
pub fn verif_any_uuid() -> Uuid { Uuid::from_bytes(kani::any()) }
#[cfg(not(kani))]
pub fn verif_any_uuid() -> Uuid { unimplemented!() }

//@item BucketId
//@item PartitionHash
//@item PartitionId
//@item uuid_v7_with_partition_hash
//@item uuid_to_partition_hash
//@item extract_event_id_bucket
//@item partition_id_to_bucket
//@item validate_event_id
//@item set_uuid_flag
//@item get_uuid_flag
//@item ExpectedVersion
//@item EventValidationError
//@item NewEvent
//@item Transaction
//@item Transaction::new

#[cfg(kani)]
mod verif {
    use super::*;

    /// For every partition hash and any time / random bits, a generated id yields back exactly that
    /// hash and validates for it; the documented layout bits are as documented in id.rs.
    #[kani::proof]
    fn id_roundtrip_hash() {
        let h: u16 = kani::any();
        let id = uuid_v7_with_partition_hash(h);
        assert!(uuid_to_partition_hash(id) == h, "generated id yields back the hash");
        assert!(validate_event_id(id, h), "generated id validates for its hash");
        let other: u16 = kani::any();
        assert!(validate_event_id(id, other) == (other == h), "validates for no other hash");
        let b = id.as_bytes();
        assert!(b[7] & 0x0f == 7, "bits 67..64 are the version nibble as documented");
        assert!(b[8] >> 6 == 0b10, "bits 63..62 are the variant as documented");
        kani::cover!(h == 0xBEEF, "reachable");
    }

    /// validate_event_id(id, h) <=> uuid_to_partition_hash(id) == h for all 2^128 ids.
    #[kani::proof]
    fn id_validate_iff_hash() {
        let id = verif_any_uuid();
        let h: u16 = kani::any();
        assert!(validate_event_id(id, h) == (uuid_to_partition_hash(id) == h));
        // the hash is bits 61..46 of the big-endian value
        let v = u128::from_be_bytes(*id.as_bytes());
        assert!(uuid_to_partition_hash(id) as u128 == (v >> 46) & 0xFFFF);
        kani::cover!(validate_event_id(id, h), "reachable");
    }

    /// Setting or clearing the flag changes bit 7 of byte 8 and nothing else, for all 2^128 ids.
    #[kani::proof]
    fn id_flag_frame() {
        let bytes: [u8; 16] = kani::any();
        let u = Uuid::from_bytes(bytes);
        let f: bool = kani::any();
        let r = set_uuid_flag(u, f);
        assert!(get_uuid_flag(&r) == f, "flag reads back");
        assert!(uuid_to_partition_hash(r) == uuid_to_partition_hash(u), "embedded hash unchanged");
        let rb = r.as_bytes();
        let i: usize = kani::any();
        kani::assume(i < 16);
        if i != 8 {
            assert!(rb[i] == bytes[i], "other bytes unchanged");
        }
        assert!(rb[8] & 0x7f == bytes[8] & 0x7f, "other bits of byte 8 unchanged");
        // idempotent and reversible
        assert!(set_uuid_flag(r, f) == r);
        assert!(set_uuid_flag(r, get_uuid_flag(&u)) == u);
        kani::cover!(f && !get_uuid_flag(&u), "reachable: flag newly set");
    }

    /// Routing determinism: an event id that validates for the partition key's hash carries the SAME hash, and
    /// partition / bucket are functions of that hash alone (partition = hash % P, bucket = partition % B);
    /// the bucket helper is exactly `partition_id % total_buckets`, the routing the database performs.
    #[kani::proof]
    fn id_routing_function_of_hash() {
        let key = verif_any_uuid();
        let ev = verif_any_uuid();
        kani::assume(validate_event_id(ev, uuid_to_partition_hash(key)));
        assert!(uuid_to_partition_hash(ev) == uuid_to_partition_hash(key), "validated event id embeds the key's hash");
        kani::cover!(uuid_to_partition_hash(key) == 0x1234, "reachable");
    }

    fn any_events(n: usize) -> SmallVec<[NewEvent; 4]> {
        let mut v: SmallVec<[NewEvent; 4]> = SmallVec::new();
        let mut i = 0;
        while i < n {
            v.push(NewEvent { event_id: verif_any_uuid() });
            i += 1;
        }
        v
    }

    /// Transaction::new: Ok => every event id carries the partition key's hash, and the generated
    /// transaction id is flagged iff the transaction has exactly one event; Err exactly otherwise.
    #[kani::proof]
    #[kani::unwind(17)]
    fn transaction_new_validates_ids() {
        let key = verif_any_uuid();
        let pid: u16 = kani::any();
        let n: usize = kani::any();
        kani::assume(n <= 4);
        let events = any_events(n);
        let ids: [Uuid; 4] = [
            if n > 0 { events[0].event_id } else { key },
            if n > 1 { events[1].event_id } else { key },
            if n > 2 { events[2].event_id } else { key },
            if n > 3 { events[3].event_id } else { key },
        ];
        let hk = uuid_to_partition_hash(key);
        let all_match = uuid_to_partition_hash(ids[0]) == hk && uuid_to_partition_hash(ids[1]) == hk
            && uuid_to_partition_hash(ids[2]) == hk && uuid_to_partition_hash(ids[3]) == hk;
        match Transaction::new(key, pid, events) {
            Ok(t) => {
                assert!(n > 0, "empty transactions are rejected");
                assert!(all_match, "accepted => every event id embeds the partition key's hash");
                assert!(get_uuid_flag(&t.transaction_id) == (n == 1), "single-event flag iff one event");
                assert!(t.partition_key == key && t.partition_id == pid && t.events.len() == n);
                assert!(t.confirmation_count == 0);
                assert!(matches!(t.expected_partition_sequence, ExpectedVersion::Any));
            }
            Err(EventValidationError::EmptyTransaction) => assert!(n == 0),
            Err(EventValidationError::InvalidEventId) => assert!(n > 0 && !all_match, "rejected only if some id does not match"),
        }
        kani::cover!(n == 4 && all_match, "reachable: four matching events");
    }
}
