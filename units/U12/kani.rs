// U12 (Kani) — writer-thread routing: bucket_id_to_thread_id extracted verbatim. The router (WriterThreadPool::append_events)
// and Worker::new's ownership filter call this same function with the same (bucket_ids, num_threads), so "every bucket has
// exactly one owning writer thread, and requests for it are routed to that thread" reduces to: for distinct bucket ids and
// 1 <= threads <= len, the function is total on the listed buckets, yields a thread id below `threads`, and is a function of its
// arguments only. Per-thread sequential execution (`&mut self` on the WriterSet owned by one thread) is Rust ownership (trusted: rustc).
#![allow(unused, dead_code)]
//@include shims/model_hash.rs CAP=4
use model_hash::Entry;

// ---- environment (D4) of WriterSet::validate_event_versions: ids are opaque equality tokens; the index lookup is a callee
// behind a contract (returns the reference state of streams that have no pending entry) ----
#[derive(Clone, Copy, Debug, PartialEq, Eq, Hash)]
pub struct Uuid(pub u8);
#[derive(Clone, Copy, Debug, PartialEq, Eq, Hash)]
pub struct StreamId(pub u8);
#[derive(Clone, Copy, Debug)]
pub struct IndexedState { pub streams: [Option<(Uuid, u64)>; 2] }
impl WriterSet {
    /// contract of the open/closed stream-index lookup: the latest indexed (synced) version of the stream, if any
    pub fn read_stream_latest_version(&self, stream_id: &StreamId) -> Result<Option<StreamLatestVersion>, WriteError> {
        Ok(self.indexed.streams[(stream_id.0 % 2) as usize].map(|(partition_key, version)| StreamLatestVersion { partition_key, version }))
    }
}

//@item BucketId
//@item PartitionId
//@item bucket_id_to_thread_id
//@item ExpectedVersion
//@item CurrentVersion
//@item StreamLatestVersion
//@item NewEvent
//@item PendingIndex
//@item EventValidationError
//@item WriteError
/// the error types of the index lookups are folded into WriteError in this environment (a helper naming them still compiles)
pub type StreamIndexError = WriteError;
pub type PartitionIndexError = WriteError;
//@item WriterSet
//@item WriterSet::validate_event_versions

#[cfg(kani)]
mod verif {
    use super::*;

    fn any_ids() -> ([u16; 6], usize) {
        let ids: [u16; 6] = kani::any();
        let len: usize = kani::any();
        kani::assume(len >= 1 && len <= 6);
        // distinct
        let mut i = 0;
        while i < len { let mut j = 0; while j < i { kani::assume(ids[i] != ids[j]); j += 1; } i += 1; }
        (ids, len)
    }

    #[kani::proof]
    #[kani::unwind(8)]
    fn route_total_and_in_range() {
        let (ids, len) = any_ids();
        let threads: u16 = kani::any();
        kani::assume(threads >= 1 && threads as usize <= len);
        let b: u16 = kani::any();
        let listed = { let mut f = false; let mut i = 0; while i < len { if ids[i] == b { f = true; } i += 1; } f };
        let r = bucket_id_to_thread_id(b, &ids[..len], threads);
        assert!(r.is_some() == listed, "routed iff the bucket is one this node stores");
        if let Some(t) = r {
            assert!(t < threads, "the owning thread exists");
            assert!(bucket_id_to_thread_id(b, &ids[..len], threads) == Some(t), "deterministic: router and owner filter agree");
        }
        kani::cover!(len == 6 && threads == 4 && r == Some(3), "reachable");
    }

    #[kani::proof]
    #[kani::unwind(8)]
    fn route_balanced_and_monotone() {
        let (ids, len) = any_ids();
        let threads: u16 = kani::any();
        kani::assume(threads >= 1 && threads as usize <= len);
        let i: usize = kani::any();
        let j: usize = kani::any();
        kani::assume(i < j && j < len);
        let ti = bucket_id_to_thread_id(ids[i], &ids[..len], threads).unwrap();
        let tj = bucket_id_to_thread_id(ids[j], &ids[..len], threads).unwrap();
        assert!(ti <= tj && tj - ti <= (j - i) as u16, "contiguous blocks of buckets per thread, in order");
        // every thread owns floor(len/threads) or that + 1 buckets (so none is idle and none owns everything)
        let t: u16 = kani::any();
        kani::assume(t < threads);
        let mut cnt = 0usize;
        let mut k = 0;
        while k < len { if bucket_id_to_thread_id(ids[k], &ids[..len], threads) == Some(t) { cnt += 1; } k += 1; }
        let base = len / threads as usize;
        assert!(cnt == base || cnt == base + 1, "balanced");
        assert!(cnt >= 1, "every writer thread owns at least one bucket");
    }

    // ------------------------------------------------------------------ validate_event_versions (C02)
    fn any_ev() -> ExpectedVersion {
        match kani::any::<u8>() & 3 { 0 => ExpectedVersion::Any, 1 => ExpectedVersion::Exists, 2 => ExpectedVersion::Empty, _ => ExpectedVersion::Exact(kani::any()) }
    }
    fn accepts(e: ExpectedVersion, c: Option<u64>) -> bool {
        match e { ExpectedVersion::Any => true, ExpectedVersion::Exists => c.is_some(), ExpectedVersion::Empty => c.is_none(), ExpectedVersion::Exact(v) => c == Some(v) }
    }
    fn pending(stream: u8, key: u8, version: u64) -> PendingIndex {
        PendingIndex { event_id: Uuid(0), partition_key: Uuid(key), partition_id: 0, partition_sequence: 0, stream_id: StreamId(stream), stream_version: version, offset: 0 }
    }

    /// For an arbitrary reference state (indexed streams + up to 2 pending appends) and a transaction of up to 2 events over up to 3
    /// streams: Ok iff every expectation holds against the stream state EXTENDED by the earlier events of the same transaction and
    /// every touched stream has the transaction's partition key; the returned versions are the versions each event saw.
    fn ws_validate<const N: usize, const NP: usize>() {
        let indexed = IndexedState { streams: [
            if kani::any() { Some((Uuid(kani::any::<u8>() % 2), kani::any())) } else { None },
            if kani::any() { Some((Uuid(kani::any::<u8>() % 2), kani::any())) } else { None } ] };
        let np: usize = NP;
        let mut pend = Vec::new();
        // pending entries continue the indexed state of their stream (writer invariant)
        let (ps0, ps1): (u8, u8) = (kani::any::<u8>() % 2, kani::any::<u8>() % 2);
        let (pk0, pk1): (u8, u8) = (kani::any::<u8>() % 2, kani::any::<u8>() % 2);
        let (pv0, pv1): (u64, u64) = (kani::any(), kani::any());
        kani::assume(pv0 < u64::MAX - 4 && pv1 < u64::MAX - 4);
        if np > 0 { pend.push(pending(ps0, pk0, pv0)); }
        if np > 1 { pend.push(pending(ps1, pk1, pv1)); }
        let ws = WriterSet { pending_indexes: pend, indexed };
        // reference: latest (key, version) of a stream = last pending entry for it, else the indexed one
        let reference = |s: u8| -> Option<(Uuid, u64)> {
            if np > 1 && ps1 == s { Some((Uuid(pk1), pv1)) } else if np > 0 && ps0 == s { Some((Uuid(pk0), pv0)) } else { indexed.streams[s as usize] }
        };
        kani::assume(indexed.streams.iter().all(|x| x.map(|(_, v)| v < u64::MAX - 4).unwrap_or(true)));
        let key = Uuid(kani::any::<u8>() % 2);
        let n: usize = N;
        let e0 = NewEvent { stream_id: StreamId(kani::any::<u8>() % 2), stream_version: any_ev() };
        let e1 = NewEvent { stream_id: StreamId(kani::any::<u8>() % 2), stream_version: any_ev() };
        let events = [e0.clone(), e1.clone()];
        let r = ws.validate_event_versions(key, &events[..n]);
        // model walk
        let s0 = e0.stream_id.0;
        let c0 = reference(s0);
        let key_ok0 = c0.map(|(k, _)| k == key).unwrap_or(true);
        let ok0 = key_ok0 && accepts(e0.stream_version, c0.map(|(_, v)| v));
        let after0 = c0.map(|(_, v)| v + 1).unwrap_or(0); // version the first event gets
        let s1 = e1.stream_id.0;
        let c1: Option<(Uuid, u64)> = if s1 == s0 { Some((key, after0)) } else { reference(s1) };
        let key_ok1 = c1.map(|(k, _)| k == key).unwrap_or(true);
        let ok1 = key_ok1 && accepts(e1.stream_version, c1.map(|(_, v)| v));
        let expect_ok = ok0 && (n < 2 || ok1);
        match r {
            Ok(v) => {
                assert!(expect_ok, "accepted only if every expectation holds (incl. earlier events of the same transaction) and the partition key matches");
                assert!(v.len() == n);
                assert!(v[0] == match c0 { Some((_, x)) => CurrentVersion::Current(x), None => CurrentVersion::Empty }, "first event saw the stream's current version");
                if n == 2 { assert!(v[1] == match c1 { Some((_, x)) => CurrentVersion::Current(x), None => CurrentVersion::Empty }, "second event saw the state extended by the first"); }
            }
            Err(WriteError::Validation(EventValidationError::PartitionKeyMismatch { .. })) => { assert!(!key_ok0 || (n == 2 && ok0 && !key_ok1), "key mismatch reported only for a stream stored under another partition key"); }
            Err(WriteError::WrongExpectedVersion { .. }) => { assert!(!expect_ok, "a transaction whose every expectation holds is never rejected"); }
            Err(_) => { assert!(false, "no other rejection"); }
        }
        kani::cover!((n < 2 || s0 == s1) && expect_ok, "reachable: an accepted transaction (two events on one stream when the harness has two events)");
    }
    #[kani::proof] #[kani::unwind(4)] fn ws_validate_one_event() { ws_validate::<1, 1>(); }
    #[kani::proof] #[kani::unwind(4)] fn ws_validate_two_events() { ws_validate::<2, 0>(); }
    #[kani::proof] #[kani::unwind(4)] fn ws_validate_two_events_pending() { ws_validate::<2, 1>(); }
}
