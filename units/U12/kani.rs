// U12 (Kani) — writer-thread routing: bucket_id_to_thread_id extracted verbatim. The router (WriterThreadPool::append_events)
// and Worker::new's ownership filter call this same function with the same (bucket_ids, num_threads), so "every bucket has
// exactly one owning writer thread, and requests for it are routed to that thread" reduces to: for distinct bucket ids and
// 1 <= threads <= len, the function is total on the listed buckets, yields a thread id below `threads`, and is a function of its
// arguments only. Per-thread sequential execution (`&mut self` on the WriterSet owned by one thread) is Rust ownership (trusted: rustc).
#![allow(unused, dead_code)]

//@item BucketId
//@item bucket_id_to_thread_id

#[cfg(kani)]
mod verif {
    use super::*;

    fn any_ids() -> ([u16; 6], usize) {
        let ids: [u16; 6] = kani::any();
        let len: usize = kani::any();
        kani::assume(len >= 1 && len <= 6);
        // distinct
        let mut i = 0;
        while i < len { let mut j = 0; while j < i { kani::assume(ids[i] != ids[j]); j += 1; } i += 1; }
        (ids, len)
    }

    #[kani::proof]
    #[kani::unwind(8)]
    fn route_total_and_in_range() {
        let (ids, len) = any_ids();
        let threads: u16 = kani::any();
        kani::assume(threads >= 1 && threads as usize <= len);
        let b: u16 = kani::any();
        let listed = { let mut f = false; let mut i = 0; while i < len { if ids[i] == b { f = true; } i += 1; } f };
        let r = bucket_id_to_thread_id(b, &ids[..len], threads);
        assert!(r.is_some() == listed, "routed iff the bucket is one this node stores");
        if let Some(t) = r {
            assert!(t < threads, "the owning thread exists");
            assert!(bucket_id_to_thread_id(b, &ids[..len], threads) == Some(t), "deterministic: router and owner filter agree");
        }
        kani::cover!(len == 6 && threads == 4 && r == Some(3), "reachable");
    }

    #[kani::proof]
    #[kani::unwind(8)]
    fn route_balanced_and_monotone() {
        let (ids, len) = any_ids();
        let threads: u16 = kani::any();
        kani::assume(threads >= 1 && threads as usize <= len);
        let i: usize = kani::any();
        let j: usize = kani::any();
        kani::assume(i < j && j < len);
        let ti = bucket_id_to_thread_id(ids[i], &ids[..len], threads).unwrap();
        let tj = bucket_id_to_thread_id(ids[j], &ids[..len], threads).unwrap();
        assert!(ti <= tj && tj - ti <= (j - i) as u16, "contiguous blocks of buckets per thread, in order");
        // every thread owns floor(len/threads) or that + 1 buckets (so none is idle and none owns everything)
        let t: u16 = kani::any();
        kani::assume(t < threads);
        let mut cnt = 0usize;
        let mut k = 0;
        while k < len { if bucket_id_to_thread_id(ids[k], &ids[..len], threads) == Some(t) { cnt += 1; } k += 1; }
        let base = len / threads as usize;
        assert!(cnt == base || cnt == base + 1, "balanced");
        assert!(cnt >= 1, "every writer thread owns at least one bucket");
    }
}
