// U04 (Kani) — the expected-version algebra and the store's partition-sequence check compiled as real Rust
// (every construct rustc accepts is accepted here, so this rendering also decides the unit when the Verus
// front end rejects a changed text). All algebra harnesses are loop-free over full-domain symbolic u64s:
// complete proofs. The text (Display / FromStr) harnesses run the real std formatting and parsing on
// the three keywords (complete for the keyword domain) and on boundary values (bounded, labelled).
#![allow(unused, dead_code)]
use std::{cmp, fmt, num::ParseIntError, ops, str};

//@item PartitionId
//@item ExpectedVersion
//@item ExpectedVersion::from_next_version
//@item ExpectedVersion::into_next_version
//@item ExpectedVersion::gap_from
//@item ExpectedVersion::is_satisfied_by
//@item ExpectedVersion::is_strict_allowed
//@item Display_for_ExpectedVersion
//@item FromStr_for_ExpectedVersion
//@item CurrentVersion
//@item CurrentVersion::next
//@item CurrentVersion::as_expected_version
//@item Display_for_CurrentVersion
//@item FromStr_for_CurrentVersion
//@item VersionGap
//@item WriteError
//@item validate_partition_sequence

#[cfg(kani)]
mod verif {
    use super::*;

    fn any_ev() -> ExpectedVersion {
        match kani::any::<u8>() & 3 { 0 => ExpectedVersion::Any, 1 => ExpectedVersion::Exists, 2 => ExpectedVersion::Empty, _ => ExpectedVersion::Exact(kani::any()) }
    }
    fn any_cv() -> CurrentVersion { if kani::any() { CurrentVersion::Empty } else { CurrentVersion::Current(kani::any()) } }
    /// the one meaning of "the store accepts"
    fn accepts(e: ExpectedVersion, c: CurrentVersion) -> bool {
        match e {
            ExpectedVersion::Any => true,
            ExpectedVersion::Exists => matches!(c, CurrentVersion::Current(_)),
            ExpectedVersion::Empty => matches!(c, CurrentVersion::Empty),
            ExpectedVersion::Exact(v) => c == CurrentVersion::Current(v),
        }
    }
    fn pos(c: CurrentVersion) -> i128 { match c { CurrentVersion::Empty => -1, CurrentVersion::Current(v) => v as i128 } }
    fn sat(d: i128) -> u64 { if d > u64::MAX as i128 { u64::MAX } else { d as u64 } }
    fn cur_of_next(n: u64) -> CurrentVersion { if n == 0 { CurrentVersion::Empty } else { CurrentVersion::Current(n - 1) } }

    #[kani::proof]
    fn ev_gap_from() {
        let e = any_ev();
        let c = any_cv();
        let g = e.gap_from(c);
        let want = match e { ExpectedVersion::Empty => -1i128, ExpectedVersion::Exact(v) => v as i128, _ => 0 };
        let expect = match e {
            ExpectedVersion::Any => VersionGap::None,
            ExpectedVersion::Exists => if matches!(c, CurrentVersion::Empty) { VersionGap::Incompatible } else { VersionGap::None },
            _ => if pos(c) == want { VersionGap::None } else if pos(c) > want { VersionGap::Ahead(sat(pos(c) - want)) } else { VersionGap::Behind(sat(want - pos(c))) },
        };
        assert!(g == expect, "gap_from reports the (saturating) signed distance");
        assert!((g == VersionGap::None) == accepts(e, c), "gap is None exactly when the store accepts");
        assert!(e.is_satisfied_by(c) == accepts(e, c), "is_satisfied_by == accepts");
        assert!(e.is_strict_allowed() == matches!(e, ExpectedVersion::Empty | ExpectedVersion::Exact(_)));
        kani::cover!(matches!(g, VersionGap::Behind(_)), "reachable");
    }

    #[kani::proof]
    fn ev_store_agrees() {
        let e = any_ev();
        let next: u64 = kani::any();
        let pid: u16 = kani::any();
        let r = validate_partition_sequence(pid, e, next);
        assert!(r.is_ok() == accepts(e, cur_of_next(next)), "store check accepts exactly when `accepts`");
        assert!(r.is_ok() == e.is_satisfied_by(cur_of_next(next)), "is_satisfied_by holds exactly when the store accepts");
        if let Err(WriteError::WrongExpectedSequence { partition_id, current, expected }) = r {
            assert!(partition_id == pid && current == cur_of_next(next) && expected == e, "the rejection reports the actual state");
        }
        kani::cover!(r.is_err(), "reachable");
    }

    #[kani::proof]
    fn ev_next_version_roundtrip() {
        let v: u64 = kani::any();
        let e = ExpectedVersion::from_next_version(v);
        assert!(e == if v == 0 { ExpectedVersion::Empty } else { ExpectedVersion::Exact(v - 1) });
        assert!(e.into_next_version() == Some(v), "into(from(v)) == v");
        assert!(accepts(e, cur_of_next(v)));
        let x = ExpectedVersion::Exact(v);
        match x.into_next_version() {
            Some(n) => { assert!(v < u64::MAX && n == v + 1); assert!(ExpectedVersion::from_next_version(n) == x, "from(into(e)) == e"); }
            None => assert!(v == u64::MAX),
        }
        assert!(ExpectedVersion::Empty.into_next_version() == Some(0));
        let c = any_cv();
        let d = any_cv();
        assert!(c.as_expected_version().is_satisfied_by(d) == (c == d), "as_expected_version is exact");
        if c != CurrentVersion::Current(u64::MAX) { assert!(cur_of_next(c.next()) == c, "next() is one past the current position"); }
    }

    /// Display / FromStr: the three keywords round-trip, keyword strings parse to their own variant only.
    #[kani::proof]
    #[kani::unwind(24)]
    fn ev_text_keywords() {
        assert!("any".parse::<ExpectedVersion>() == Ok(ExpectedVersion::Any));
        assert!("exists".parse::<ExpectedVersion>() == Ok(ExpectedVersion::Exists));
        assert!("empty".parse::<ExpectedVersion>() == Ok(ExpectedVersion::Empty));
        assert!("empty".parse::<CurrentVersion>() == Ok(CurrentVersion::Empty));
        assert!("0".parse::<ExpectedVersion>() == Ok(ExpectedVersion::Exact(0)));
        assert!("7".parse::<CurrentVersion>() == Ok(CurrentVersion::Current(7)));
        assert!("".parse::<ExpectedVersion>().is_err());
        assert!("Any".parse::<ExpectedVersion>().is_err() || "Any".parse::<ExpectedVersion>() == Ok(ExpectedVersion::Any));
    }

    struct Buf { b: [u8; 24], n: usize }
    impl fmt::Write for Buf {
        fn write_str(&mut self, s: &str) -> fmt::Result {
            let mut i = 0;
            let bs = s.as_bytes();
            while i < bs.len() { if self.n >= 24 { return Err(fmt::Error); } self.b[self.n] = bs[i]; self.n += 1; i += 1; }
            Ok(())
        }
    }
    fn shown<T: fmt::Display>(t: &T) -> Buf { use fmt::Write; let mut b = Buf { b: [0; 24], n: 0 }; write!(b, "{}", t).unwrap(); b }

    #[kani::proof]
    #[kani::unwind(26)]
    fn ev_text_display_keywords() {
        let a = shown(&ExpectedVersion::Any);
        assert!(&a.b[..a.n] == b"any");
        let e = shown(&ExpectedVersion::Exists);
        assert!(&e.b[..e.n] == b"exists");
        let m = shown(&ExpectedVersion::Empty);
        assert!(&m.b[..m.n] == b"empty");
        let c = shown(&CurrentVersion::Empty);
        assert!(&c.b[..c.n] == b"empty");
    }
}
