// U04 — expected-version algebra (C25) and the store's partition-sequence check (C02, C25).
// Template: spec side only. Every enum, impl method and function below a //@item line is extracted
// from /repo on every run.
use vstd::prelude::*;
use std::cmp;
verus! {

//@item PartitionId

// ---- spec: the one meaning of "the store accepts an append with expectation e when the state is c"
pub open spec fn accepts(e: ExpectedVersion, c: CurrentVersion) -> bool {
    match e {
        ExpectedVersion::Any => true,
        ExpectedVersion::Exists => c is Current,
        ExpectedVersion::Empty => c is Empty,
        ExpectedVersion::Exact(v) => c == CurrentVersion::Current(v),
    }
}
/// position as a mathematical integer: Empty = -1
pub open spec fn pos(c: CurrentVersion) -> int { match c { CurrentVersion::Empty => -1, CurrentVersion::Current(v) => v as int } }
pub open spec fn want(e: ExpectedVersion) -> int { match e { ExpectedVersion::Empty => -1, ExpectedVersion::Exact(v) => v as int, _ => 0 } }
pub open spec fn cur_of_next(next: u64) -> CurrentVersion { if next == 0 { CurrentVersion::Empty } else { CurrentVersion::Current((next - 1) as u64) } }
/// distances are reported in u64; the only unrepresentable distance (2^64, between Empty and u64::MAX) saturates
pub open spec fn sat(d: int) -> u64 { if d > u64::MAX { u64::MAX } else { d as u64 } }
pub open spec fn gap_spec(e: ExpectedVersion, c: CurrentVersion, g: VersionGap) -> bool {
    match e {
        ExpectedVersion::Any => g is None,
        ExpectedVersion::Exists => if c is Empty { g is Incompatible } else { g is None },
        _ => if pos(c) == want(e) { g is None }
             else if pos(c) > want(e) { g == VersionGap::Ahead(sat(pos(c) - want(e))) }
             else { g == VersionGap::Behind(sat(want(e) - pos(c))) },
    }
}

//@item ExpectedVersion
//@item ExpectedVersion::from_next_version
//@item ExpectedVersion::into_next_version
//@item ExpectedVersion::gap_from
//@item ExpectedVersion::is_satisfied_by
//@item ExpectedVersion::is_strict_allowed
//@item CurrentVersion
//@item CurrentVersion::next
//@item CurrentVersion::as_expected_version
//@item VersionGap
//@item WriteError
//@item validate_partition_sequence

// ---- lemmas over the contracts (each caller is checked against the callees' contracts only)

/// from_next_version / into_next_version are mutually inverse on their domains, including u64 boundaries.
fn roundtrip_from_into(v: u64) {
    let e = ExpectedVersion::from_next_version(v);
    let r = e.into_next_version();
    assert(r == Some(v));
}
fn roundtrip_into_from(e: ExpectedVersion)
    requires e is Empty || e is Exact,
{
    let r = e.into_next_version();
    match r {
        Some(v) => { let e2 = ExpectedVersion::from_next_version(v); assert(e2 == e); }
        None => { assert(e == ExpectedVersion::Exact(u64::MAX)); }
    }
}
/// is_satisfied_by holds exactly when the store's own check accepts (same spec function on both sides).
fn store_agrees(pid: PartitionId, e: ExpectedVersion, next: u64) {
    let ghost c = cur_of_next(next);
    let store = validate_partition_sequence(pid, e, next);
    let cur = if next == 0 { CurrentVersion::Empty } else { CurrentVersion::Current(next - 1) };
    let algebra = e.is_satisfied_by(cur);
    assert(store.is_ok() == algebra);
}
/// the expectation derived from a current version is satisfied by it, and by nothing else
fn as_expected_is_exact(c: CurrentVersion, d: CurrentVersion) {
    let e = c.as_expected_version();
    let b = e.is_satisfied_by(d);
    assert(b == (c == d));
}

}
fn main() {}
