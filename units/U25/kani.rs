// U25 (Kani) — Subscription::send_record (C09), extracted verbatim (async erased): the acknowledgement window of a subscription.
#![allow(unused, dead_code, static_mut_refs)]
#[derive(Clone, Copy, Debug, PartialEq, Eq)]
pub struct Uuid(pub u8);
#[derive(Clone, Copy, Debug, PartialEq, Eq)]
pub struct EventRecord(pub u8);
#[derive(Debug)]
pub enum SubscriptionError { ReceiverClosed, AckClosed }
pub struct RecvError;
pub struct SendError;
impl From<RecvError> for SubscriptionError { fn from(_: RecvError) -> Self { SubscriptionError::AckClosed } }
impl From<SendError> for SubscriptionError { fn from(_: SendError) -> Self { SubscriptionError::ReceiverClosed } }
/// which acknowledgement value the predicate accepted (recorded for the postcondition)
pub static mut ACCEPTED: Option<Option<u64>> = None;
pub mod watch {
    /// the acknowledgement values the subscriber publishes over time, offered to the predicate in order
    pub struct Receiver<T> { pub values: [T; 3], pub n: usize }
    impl Receiver<Option<u64>> {
        pub fn wait_for(&mut self, mut f: impl FnMut(&Option<u64>) -> bool) -> Result<(), super::RecvError> {
            let mut i = 0;
            while i < self.n { if f(&self.values[i]) { unsafe { super::ACCEPTED = Some(self.values[i]); } return Ok(()); } i += 1; }
            Err(super::RecvError)
        }
    }
}
pub static mut SENT: Option<(Uuid, u64, EventRecord)> = None;
pub static mut SENT_N: u32 = 0;
//@item SubscriptionEvent
pub struct UnboundedSender<T> { pub closed: bool, pub _p: core::marker::PhantomData<T> }
impl UnboundedSender<SubscriptionEvent> {
    pub fn send(&self, e: SubscriptionEvent) -> Result<(), SendError> {
        if self.closed { return Err(SendError); }
        match e { SubscriptionEvent::Record { subscription_id, cursor, record } => unsafe { SENT = Some((subscription_id, cursor, record)); SENT_N += 1; } }
        Ok(())
    }
}
//@item Subscription
//@item Subscription::send_record

#[cfg(kani)]
mod verif {
    use super::*;
    #[kani::proof]
    #[kani::unwind(5)]
    fn send_record_respects_window() {
        let cursor: u64 = kani::any();
        let window: u64 = kani::any();
        kani::assume(cursor < u64::MAX);
        let acks: [Option<u64>; 3] = kani::any();
        let n: usize = kani::any();
        kani::assume(n <= 3);
        // an acknowledgement never exceeds the last cursor sent (cursor - 1); before anything was sent there is none
        let mut i = 0;
        while i < 3 { if let Some(a) = acks[i] { kani::assume(cursor > 0 && a < cursor); } i += 1; }
        let closed: bool = kani::any();
        let mut s = Subscription { update_tx: UnboundedSender { closed, _p: core::marker::PhantomData }, last_ack_rx: watch::Receiver { values: acks, n }, window_size: window, subscription_id: Uuid(7), cursor };
        unsafe { SENT = None; SENT_N = 0; ACCEPTED = None; }
        kani::cover!(n == 2 && acks[0] == None && cursor == 5 && window == 3, "reachable: a full window that the first acknowledgement value does not open");
        let r = s.send_record(EventRecord(9));
        match r {
            Ok(()) => {
                assert!(unsafe { SENT_N } == 1 && unsafe { SENT } == Some((Uuid(7), cursor, EventRecord(9))), "exactly this record is sent, with the current cursor");
                assert!(s.cursor == cursor + 1, "the cursor advances by one");
                let outstanding_after = match unsafe { ACCEPTED }.unwrap() { Some(a) => cursor - a, None => cursor + 1 };
                assert!(outstanding_after <= window, "the records outstanding after the send (above the acknowledged cursor, including this one) fit the window");
            }
            Err(_) => {
                assert!(unsafe { SENT_N } == 0 && s.cursor == cursor, "nothing is sent and the cursor keeps its value when a channel is closed");
            }
        }
    }
}
