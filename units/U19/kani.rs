// U19 (Kani) — the free-space decision of the writer thread (C19: "any transaction whose stored size fits into an empty segment
// is accepted, with the database rolling over to a new segment when needed"): a SLICE (R5) of Worker::handle_append_events lifted
// verbatim — the size estimate, the EventsExceedSegmentSize rejection and the rollover decision — against recorders.
#![allow(unused, dead_code)]
use std::mem;
pub type BucketId = u16;
pub type PartitionId = u16;
pub const RECORD_HEAD_SIZE: usize = 8; // seglog: length + crc32c (crates/seglog/src/lib.rs; checked by units/U02)
#[derive(Clone, Copy, Debug, PartialEq, Eq)]
pub struct Uuid(pub u128);
/// the transaction-id flag of sierradb::id (bit 61 of the low half... any fixed bit: the slice only asks whether it is set)
pub fn get_uuid_flag(u: &Uuid) -> bool { u.0 & 1 == 1 }
#[derive(Debug)]
pub enum WriteError { EventsExceedSegmentSize, Io }
/// only the lengths of the variable parts matter to the decision
pub struct Len(pub usize);
impl Len { pub fn len(&self) -> usize { self.0 } }
pub struct NewEvent { pub stream_id: Len, pub event_name: Len, pub metadata: Len, pub payload: Len }
pub struct Events { pub items: [NewEvent; 2], pub n: usize }
impl Events { pub fn iter(&self) -> std::slice::Iter<'_, NewEvent> { self.items[..self.n].iter() } }
pub struct SegWriter { pub write_offset: u64 }
impl SegWriter { pub fn write_offset(&self) -> u64 { self.write_offset } }
pub struct WriterSet { pub writer: SegWriter, pub segment_size: usize, pub rollovers: u32, pub rollover_fails: bool }
impl WriterSet {
    pub fn rollover(&mut self) -> Result<(), WriteError> {
        if self.rollover_fails { return Err(WriteError::Io); }
        self.rollovers += 1;
        self.writer.write_offset = SEGMENT_HEADER_SIZE as u64;
        Ok(())
    }
}
pub static mut REPLIED: Option<bool> = None; // Some(true): EventsExceedSegmentSize, Some(false): another error
pub struct ReplyTx;
impl ReplyTx { pub fn send(self, r: Result<(), WriteError>) -> Result<(), ()> { unsafe { REPLIED = Some(matches!(r, Err(WriteError::EventsExceedSegmentSize))); } Ok(()) } }

//@item CONFIRMATION_HEADER_SIZE
//@item RECORD_HEADER_SIZE
//@item EVENT_HEADER_SIZE
//@item COMMIT_SIZE
//@item MAGIC_BYTES_SIZE
//@item VERSION_SIZE
//@item BUCKET_ID_SIZE
//@item CREATED_AT_SIZE
//@item PADDING_SIZE
//@item SEGMENT_HEADER_SIZE
//@item append_space_decision_slice

#[cfg(kani)]
mod verif {
    use super::*;
    /// the uncompressed stored size of one event record (format, see unit.toml `trusted`)
    fn stored_event(e: &NewEvent) -> usize { 8 + 1 + 8 + 16 + 16 + 16 + 2 + 8 + 8 + 1 + e.stream_id.0 + 1 + e.event_name.0 + 4 + e.metadata.0 + 4 + e.payload.0 }
    const STORED_COMMIT: usize = 8 + 1 + 8 + 16 + 4;
    const STORED_SEGMENT_HEADER: usize = 4 + 2 + 2 + 8 + 32;

    #[kani::proof]
    #[kani::unwind(10)]
    fn append_space_decision() {
        let n: usize = kani::any();
        kani::assume(n >= 1 && n <= 2);
        let l: [usize; 8] = kani::any();
        let mut i = 0;
        while i < 8 { kani::assume(l[i] <= if i % 4 < 2 { 255 } else { 1 << 32 }); i += 1; }
        let events = Events { items: [NewEvent { stream_id: Len(l[0]), event_name: Len(l[1]), metadata: Len(l[2]), payload: Len(l[3]) },
                                      NewEvent { stream_id: Len(l[4]), event_name: Len(l[5]), metadata: Len(l[6]), payload: Len(l[7]) }], n };
        let tx = Uuid(kani::any());
        // Transaction::new: a single-event transaction carries the flag (no commit record), a multi-event one does not
        kani::assume(get_uuid_flag(&tx) == (n == 1));
        let segment_size: usize = kani::any();
        let wo: u64 = kani::any();
        kani::assume(segment_size <= 1 << 32 && wo >= STORED_SEGMENT_HEADER as u64 && wo <= segment_size as u64);
        let mut ws = WriterSet { writer: SegWriter { write_offset: wo }, segment_size, rollovers: 0, rollover_fails: false };
        unsafe { REPLIED = None; }
        let stored = stored_event(&events.items[0]) + if n == 2 { stored_event(&events.items[1]) + STORED_COMMIT } else { 0 };
        kani::cover!(n == 2 && stored + STORED_SEGMENT_HEADER <= segment_size && wo as usize + stored > segment_size, "reachable: two events that need a rollover");
        kani::cover!(stored + STORED_SEGMENT_HEADER > segment_size, "reachable: larger than a segment");
        append_space_decision_slice(&mut ws, &events, tx, ReplyTx);
        let replied = unsafe { REPLIED };
        if stored + STORED_SEGMENT_HEADER > segment_size {
            assert!(replied == Some(true) && ws.rollovers == 0, "a transaction that does not fit an empty segment is rejected with EventsExceedSegmentSize, nothing rolled over");
        } else {
            assert!(replied.is_none(), "a transaction whose stored size fits an empty segment is never rejected for lack of space");
            if wo as usize + stored > segment_size {
                assert!(ws.rollovers == 1 && ws.writer.write_offset == STORED_SEGMENT_HEADER as u64, "it does not fit the live segment: rolled over exactly once before the write");
            } else {
                assert!(ws.rollovers == 0 && ws.writer.write_offset == wo, "it fits the live segment: no rollover");
            }
            assert!(ws.writer.write_offset as usize + stored <= segment_size, "the write starts where the uncompressed records fit");
        }
    }
}
