// U02r (Kani) — the checksum gate of seglog's Reader (C17: "a record is returned only if its checksum matches; a record whose
// checksum matches is never rejected"), one harness per decoding path of Reader::read_record. The reader's real text is compiled
// against a minimal environment (D4): a 24-byte disk, a plain-enum io::Error, the rotate-xor crc model, the zstd tag model.
#![allow(unused, dead_code, static_mut_refs)]
pub mod io {
    #[derive(Debug, Clone, Copy, PartialEq, Eq)]
    pub enum ErrorKind { UnexpectedEof, InvalidData, Other }
    #[derive(Debug)]
    pub struct Error(pub ErrorKind);
    impl Error { pub fn new<E>(k: ErrorKind, _e: E) -> Error { Error(k) } pub fn kind(&self) -> ErrorKind { self.0 } }
    impl From<ErrorKind> for Error { fn from(k: ErrorKind) -> Error { Error(k) } }
    pub type Result<T> = core::result::Result<T, Error>;
}
pub mod env {
    use super::io;
    pub const DISK_SIZE: usize = 24;
    pub static mut DISK: [u8; DISK_SIZE] = [0u8; DISK_SIZE];
    #[derive(Debug)]
    pub struct File;
    pub struct Metadata;
    impl Metadata { pub fn len(&self) -> u64 { DISK_SIZE as u64 } }
    impl File {
        pub fn metadata(&self) -> io::Result<Metadata> { Ok(Metadata) }
        pub fn read_exact_at(&self, buf: &mut [u8], offset: u64) -> io::Result<()> {
            let o = offset as usize;
            if offset > DISK_SIZE as u64 || buf.len() > DISK_SIZE - o { return Err(io::Error::from(io::ErrorKind::UnexpectedEof)); }
            let mut i = 0;
            while i < buf.len() { buf[i] = unsafe { DISK[o + i] }; i += 1; }
            Ok(())
        }
        pub fn read_at(&self, buf: &mut [u8], offset: u64) -> io::Result<usize> {
            if offset >= DISK_SIZE as u64 { return Ok(0); }
            let o = offset as usize;
            let n = if buf.len() < DISK_SIZE - o { buf.len() } else { DISK_SIZE - o };
            let mut i = 0;
            while i < n { buf[i] = unsafe { DISK[o + i] }; i += 1; }
            Ok(n)
        }
    }
    pub struct OpenOptions;
    impl OpenOptions {
        pub fn new() -> Self { OpenOptions }
        pub fn read(&mut self, _: bool) -> &mut Self { self }
        pub fn write(&mut self, _: bool) -> &mut Self { self }
        pub fn open<P: AsRef<std::path::Path>>(&self, _p: P) -> io::Result<File> { Ok(File) }
    }
}
pub mod crc32fast {
    pub struct Hasher { h: u32 }
    impl Hasher {
        pub fn new() -> Self { Hasher { h: 0x811C9DC5 } }
        pub fn update(&mut self, bytes: &[u8]) { let mut i = 0; while i < bytes.len() { self.h = self.h.rotate_left(5) ^ (bytes[i] as u32) ^ 0x9E37_79B9; i += 1; } }
        pub fn finalize(self) -> u32 { self.h }
    }
}
pub mod zstd { pub mod stream {
    pub fn copy_decode(src: &[u8], dst: &mut Vec<u8>) -> super::super::io::Result<()> {
        if src.is_empty() || src[0] != 0x5A { return Err(super::super::io::Error::from(super::super::io::ErrorKind::InvalidData)); }
        dst.extend_from_slice(&src[1..]);
        Ok(())
    }
} }
use env::{File, OpenOptions, DISK, DISK_SIZE};
use std::borrow::Cow;
use std::path::Path;
use std::mem;
use std::sync::Arc;
use std::sync::atomic::{AtomicU64, Ordering};

//@item LEN_SIZE
//@item CRC32C_SIZE
//@item RECORD_HEAD_SIZE
//@item COMPRESSION_FLAG
//@item LENGTH_MASK
//@item FlushedOffset
//@item FlushedOffset::new
//@item FlushedOffset::set
//@item FlushedOffset::load
//@item calculate_crc32c
//@item PAGE_SIZE
//@item OPTIMISTIC_DATA_SIZE
//@item FALLBACK_BUF_SIZE
//@item READ_AHEAD_SIZE
//@item Record
//@item ReadError
//@item ReadHint
//@item Reader
//@item Reader::open
//@item Reader::read_record
//@item Reader::read_record_sequential
//@item ReadAheadBuf
//@item ReadAheadBuf::new
//@item ReadAheadBuf::overlaps
//@item ReadAheadBuf::invalidate
//@item ReadAheadBuf::read
//@item ReadAheadBuf::fill
//@item is_truncation_marker
// thiserror's #[from] conversion (derive dropped by D1)
impl From<io::Error> for ReadError { fn from(e: io::Error) -> Self { ReadError::Io(e) } }

#[cfg(kani)]
mod verif {
    use super::*;
    const START: u64 = 8;
    fn crc_model(len_bytes: &[u8; 4], header: &[u8], data: &[u8]) -> u32 {
        let mut h = crc32fast::Hasher::new();
        h.update(len_bytes); h.update(header); h.update(data);
        h.finalize()
    }
    /// path selected by a CONCRETE payload length PL (2: optimistic buffer, 4: fallback buffer, 6: allocated buffer)
    fn reader_gate<const PL: usize>(hint: ReadHint) {
        let img: [u8; DISK_SIZE] = kani::any();
        unsafe { DISK = img; }
        let off: u64 = START;
        let lb = (PL as u32).to_le_bytes();
        unsafe { DISK[8] = lb[0]; DISK[9] = lb[1]; DISK[10] = lb[2]; DISK[11] = lb[3]; }
        let disk = unsafe { DISK };
        let stored_crc = u32::from_le_bytes([disk[12], disk[13], disk[14], disk[15]]);
        let want_crc = crc_model(&lb, &disk[16..17], &disk[17..16 + PL]);
        let mut r = Reader::<1>::open("seg", Some(FlushedOffset::new(DISK_SIZE as u64))).unwrap();
        match r.read_record(off, hint) {
            Ok(rec) => {
                kani::cover!(true, "reachable: a record is accepted");
                assert!(stored_crc == want_crc, "a record is only returned when its stored checksum matches its length, header and data");
                assert!(rec.offset == off && rec.len == RECORD_HEAD_SIZE + PL && rec.header.len() == 1 && rec.header[0] == disk[16], "the record at that offset");
                assert!(rec.compressed_data.is_none() && rec.data.len() == PL - 1, "uncompressed data of the stored length");
                let j: usize = kani::any();
                kani::assume(j < PL - 1);
                assert!(rec.data[j] == disk[17 + j], "its data bytes are the bytes on disk");
            }
            Err(ReadError::Crc32cMismatch { offset }) => { kani::cover!(true, "reachable: a record is rejected"); assert!(offset == off && stored_crc != want_crc, "a record whose checksum matches is never rejected"); }
            Err(_) => { assert!(false, "no other error for an in-bounds uncompressed record on a healthy disk"); }
        }
    }
    #[kani::proof] #[kani::unwind(26)] fn rd_gate_random_optimistic() { reader_gate::<2>(ReadHint::Random); }
    #[kani::proof] #[kani::unwind(26)] fn rd_gate_random_fallback() { reader_gate::<4>(ReadHint::Random); }
    #[kani::proof] #[kani::unwind(26)] fn rd_gate_random_allocated() { reader_gate::<6>(ReadHint::Random); }
    #[kani::proof] #[kani::unwind(26)] fn rd_gate_sequential() { reader_gate::<4>(ReadHint::Sequential); }

    /// A long-lived reader and a truncation (C18: "no read returns bytes beyond the flushed offset", "for any interleaving of
    /// appends, syncs, truncations and reads"): the reader reads a record, the writer then lowers the shared flushed offset below
    /// that record (Writer::set_len), and the SAME reader is asked for it again: it must report OutOfBounds, whatever it cached.
    fn reader_respects_lowered_flushed<const PL: usize>(hint: ReadHint) {
        let img: [u8; DISK_SIZE] = kani::any();
        unsafe { DISK = img; }
        let lb = (PL as u32).to_le_bytes();
        unsafe { DISK[8] = lb[0]; DISK[9] = lb[1]; DISK[10] = lb[2]; DISK[11] = lb[3]; }
        let fo = FlushedOffset::new(DISK_SIZE as u64);
        let mut r = Reader::<1>::open("seg", Some(fo.clone())).unwrap();
        let first_ok = r.read_record(START, hint).is_ok();
        let lowered: u64 = kani::any();
        kani::assume(lowered >= START && lowered < START + (RECORD_HEAD_SIZE + PL) as u64);
        fo.set(lowered);
        kani::cover!(first_ok, "reachable: the record was served before the truncation");
        match r.read_record(START, hint) {
            Err(ReadError::OutOfBounds { .. }) => {}
            Ok(_) => { assert!(false, "a record that ends beyond the (lowered) flushed offset was returned"); }
            Err(_) => { assert!(false, "a request beyond the flushed offset reports OutOfBounds"); }
        }
    }
    #[kani::proof] #[kani::unwind(26)] fn rd_respects_lowered_flushed_random() { reader_respects_lowered_flushed::<2>(ReadHint::Random); }
    // (the sequential variant - two reads through the read-ahead cache - runs CBMC out of memory; the bounds checks it would
    // exercise are the same two comparisons at the top of read_record_sequential, and the cache itself is proved in units/U03)
}
