// U24 (Kani) — rebuilding the live segment's indexes on open (C05): Open{Partition,Stream,Event}Index::hydrate extracted verbatim.
// After a crash the last transaction of the live segment may lack its commit record; its events are intact records (the
// recovery scan keeps them) but they were never acknowledged and no reader returns them (C04) — the indexes must not list them,
// or the next append continues AFTER phantom sequences / versions (gap) and scans fail on offsets that hold no committed event.
#![allow(unused, dead_code)]
pub type PartitionId = u16;
#[derive(Clone, Copy, Debug, PartialEq, Eq)]
pub struct Uuid(pub u8);
#[derive(Clone, Copy, Debug, PartialEq, Eq)]
pub struct StreamId(pub u8);
impl Uuid { pub fn nil() -> Uuid { Uuid(0) } }
pub fn get_uuid_flag(u: &Uuid) -> bool { u.0 & 1 == 1 }
#[derive(Debug)] pub struct ReadError;
#[derive(Debug)] pub struct PartitionIndexError;
#[derive(Debug)] pub struct StreamIndexError;
#[derive(Debug)] pub struct EventIndexError;
impl From<ReadError> for PartitionIndexError { fn from(_: ReadError) -> Self { PartitionIndexError } }
impl From<ReadError> for StreamIndexError { fn from(_: ReadError) -> Self { StreamIndexError } }
impl From<ReadError> for EventIndexError { fn from(_: ReadError) -> Self { EventIndexError } }
/// D4: Vec as a fixed-capacity array (std Vec of tuples ran CBMC out of memory on the repaired text)
pub struct Vec<T> { pub slots: [Option<T>; 4], pub n: usize }
impl<T> Vec<T> {
    pub fn new() -> Self { Vec { slots: [const { None }; 4], n: 0 } }
    pub fn push(&mut self, v: T) { assert!(self.n < 4, "model capacity"); self.slots[self.n] = Some(v); self.n += 1; }
    pub fn clear(&mut self) { let mut i = 0; while i < self.n { self.slots[i] = None; i += 1; } self.n = 0; }
    pub fn len(&self) -> usize { self.n }
    pub fn is_empty(&self) -> bool { self.n == 0 }
    pub fn iter(&self) -> VecIter<'_, T> { VecIter { v: self, i: 0 } }
}
pub struct VecIter<'a, T> { v: &'a Vec<T>, i: usize }
impl<'a, T> Iterator for VecIter<'a, T> { type Item = &'a T; fn next(&mut self) -> Option<&'a T> { if self.i < self.v.n { self.i += 1; self.v.slots[self.i - 1].as_ref() } else { None } } }
impl<'a, T> IntoIterator for &'a Vec<T> { type Item = &'a T; type IntoIter = VecIter<'a, T>; fn into_iter(self) -> VecIter<'a, T> { self.iter() } }
//@item EventRecord
//@item CommitRecord
//@item Record

pub const LOG: usize = 4;
/// the live segment as the recovery scan left it: a list of intact records
pub struct BucketSegmentReader { pub recs: [Option<Record>; LOG], pub n: usize }
pub struct BucketSegmentIter<'a> { r: &'a BucketSegmentReader, i: usize }
impl BucketSegmentReader { pub fn iter(&mut self) -> BucketSegmentIter<'_> { BucketSegmentIter { r: self, i: 0 } } }
impl<'a> BucketSegmentIter<'a> { pub fn next_record(&mut self) -> Result<Option<Record>, ReadError> { if self.i < self.r.n { self.i += 1; Ok(self.r.recs[self.i - 1].clone()) } else { Ok(None) } } }

/// recorders of what each index was asked to insert: (key token, position, offset)
#[derive(Default)]
pub struct Ins { pub v: [(u16, u64, u64); LOG], pub n: usize }
impl Ins { fn put(&mut self, k: u16, p: u64, o: u64) { assert!(self.n < LOG, "model capacity"); self.v[self.n] = (k, p, o); self.n += 1; } }
pub struct OpenPartitionIndex { pub ins: Ins }
impl OpenPartitionIndex { pub fn insert(&mut self, partition_id: PartitionId, sequence: u64, offset: u64) -> Result<(), PartitionIndexError> { self.ins.put(partition_id, sequence, offset); Ok(()) } }
pub struct OpenStreamIndex { pub ins: Ins }
impl OpenStreamIndex { pub fn insert(&mut self, stream_id: StreamId, partition_key: Uuid, stream_version: u64, offset: u64) -> Result<(), StreamIndexError> { self.ins.put(stream_id.0 as u16 * 256 + partition_key.0 as u16, stream_version, offset); Ok(()) } }
pub struct OpenEventIndex { pub ins: Ins }
impl OpenEventIndex { pub fn insert(&mut self, event_id: Uuid, offset: u64) -> Option<u64> { self.ins.put(event_id.0 as u16, 0, offset); None } }
//@item OpenPartitionIndex::hydrate
//@item OpenStreamIndex::hydrate
//@item OpenEventIndex::hydrate

#[cfg(kani)]
mod verif {
    use super::*;
    fn ev(i: usize, tx: Uuid) -> Record {
        Record::Event(EventRecord { offset: 100 + 10 * i as u64, event_id: Uuid(10 + i as u8), partition_key: Uuid(kani::any::<u8>() % 2), partition_id: kani::any::<u16>() % 2, transaction_id: tx, partition_sequence: kani::any(), stream_version: kani::any(), stream_id: StreamId(kani::any::<u8>() % 2) })
    }
    fn commit(i: usize, tx: Uuid, count: u32) -> Record { Record::Commit(CommitRecord { offset: 100 + 10 * i as u64, transaction_id: tx, timestamp: 1, confirmation_count: 1, event_count: count }) }

    /// a well-formed live segment: [optional flagged single event] [optional committed 2-event transaction] [optional LAST
    /// transaction of 1..2 events WITHOUT its commit record]; returns the records and, per slot, whether the record is a committed event
    fn any_log() -> ([Option<Record>; LOG], usize, [bool; LOG]) {
        let mut recs: [Option<Record>; LOG] = [None, None, None, None];
        let mut committed = [false; LOG];
        let mut n = 0;
        let lead: u8 = kani::any();
        kani::assume(lead <= 2);
        if lead == 1 { recs[n] = Some(ev(n, Uuid(1))); committed[n] = true; n += 1; }           // a flagged single event (odd id)
        if lead == 2 { recs[0] = Some(ev(0, Uuid(2))); recs[1] = Some(ev(1, Uuid(2))); recs[2] = Some(commit(2, Uuid(2), 2)); committed[0] = true; committed[1] = true; n = 3; }
        let cut: u8 = kani::any();                                                               // events of the torn last transaction
        kani::assume(cut <= 2 && n + cut as usize <= LOG);
        let mut k = 0;
        while k < cut { recs[n] = Some(ev(n, Uuid(4))); n += 1; k += 1; }
        (recs, n, committed)
    }
    fn expect(recs: &[Option<Record>; LOG], n: usize, committed: &[bool; LOG], key: fn(&EventRecord) -> (u16, u64, u64)) -> ([(u16, u64, u64); LOG], usize) {
        let mut out = [(0u16, 0u64, 0u64); LOG];
        let mut m = 0;
        let mut i = 0;
        while i < n { if committed[i] { if let Some(Record::Event(e)) = &recs[i] { out[m] = key(e); m += 1; } } i += 1; }
        (out, m)
    }

    #[kani::proof]
    #[kani::unwind(6)]
    fn hydrate_committed_only() {
        let (recs, n, committed) = any_log();
        kani::cover!(n == 4 && !committed[3] && committed[0], "reachable: a committed transaction followed by a torn one");
        let mut reader = BucketSegmentReader { recs: recs.clone(), n };
        let mut p = OpenPartitionIndex { ins: Ins::default() };
        assert!(p.hydrate(&mut reader).is_ok());
        let (want, m) = expect(&recs, n, &committed, |e| (e.partition_id, e.partition_sequence, e.offset));
        assert!(p.ins.n == m, "partition index: exactly the events of committed transactions (an event whose commit record is missing was never acknowledged and must not be counted)");
        let mut i = 0; while i < m { assert!(p.ins.v[i] == want[i], "partition index: id, sequence and offset of each committed event, in log order"); i += 1; }
        let mut s = OpenStreamIndex { ins: Ins::default() };
        assert!(s.hydrate(&mut reader).is_ok());
        let (want, m) = expect(&recs, n, &committed, |e| (e.stream_id.0 as u16 * 256 + e.partition_key.0 as u16, e.stream_version, e.offset));
        assert!(s.ins.n == m, "stream index: exactly the events of committed transactions");
        let mut i = 0; while i < m { assert!(s.ins.v[i] == want[i], "stream index: stream, partition key, version and offset of each committed event"); i += 1; }
        let mut x = OpenEventIndex { ins: Ins::default() };
        assert!(x.hydrate(&mut reader).is_ok());
        let (want, m) = expect(&recs, n, &committed, |e| (e.event_id.0 as u16, 0, e.offset));
        assert!(x.ins.n == m, "event index: exactly the events of committed transactions");
        let mut i = 0; while i < m { assert!(x.ins.v[i] == want[i], "event index: id and offset of each committed event"); i += 1; }
    }
}
