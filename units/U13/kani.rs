// U13 (Kani) — transaction atomicity for readers (C04): SegmentBlock::read_committed_events and its file-backed twin
// BucketSegmentReader::read_committed_events (polonius macros), both extracted verbatim. Their callee `read_record` is behind
// a contract: it returns the record of an ABSTRACT LOG stored at the given offset (D4: the two reader structs are shims holding
// that log). EventRecord is field-sliced (D3) to offset / event_id / transaction_id / size — the only fields the functions mention.
#![allow(unused, dead_code)]
//@include shims/model_smallvec.rs
use polonius_the_crab::{exit_polonius, polonius, polonius_return, polonius_try};
use std::mem;

/// D4: a transaction / event id is an opaque 128-bit token here; its flag bit (byte 8, bit 7) is proved in U05
#[derive(Clone, Copy, Debug, PartialEq, Eq)]
pub struct Uuid { pub hi: u64, pub lo: u64 }
impl Uuid { pub fn nil() -> Self { Uuid { hi: 0, lo: 0 } } }
/// contract of sierradb::id::get_uuid_flag (callee behind its U05 contract): bit 7 of byte 8
pub fn get_uuid_flag(uuid: &Uuid) -> bool { uuid.lo >> 63 == 1 }

//@item RECORD_HEAD_SIZE
//@item CONFIRMATION_HEADER_SIZE
//@item RECORD_HEADER_SIZE
//@item COMMIT_SIZE
//@item EventRecord
//@item CommitRecord
//@item Record
//@item CommittedEvents

#[derive(Debug)]
pub enum ReadError { BadOffset }
#[derive(Clone, Copy)]
pub enum ReadHint { Random, Sequential }

pub const LOG_CAP: usize = 6;
/// the abstract log: `n` records laid out back to back from `base`
#[derive(Clone)]
pub struct Log { pub recs: [Option<Record>; LOG_CAP], pub n: usize }
impl Log {
    pub fn at(&self, offset: u64) -> Result<Option<Record>, ReadError> {
        let mut i = 0;
        let mut end = 0u64;
        while i < self.n {
            let (o, sz) = match self.recs[i].as_ref().unwrap() { Record::Event(e) => (e.offset, e.size), Record::Commit(c) => (c.offset, COMMIT_SIZE as u64) };
            if o == offset { return Ok(self.recs[i].clone()); }
            end = o + sz;
            i += 1;
        }
        if offset >= end { Ok(None) } else { Err(ReadError::BadOffset) }
    }
}
pub struct SegmentBlock { pub log: Log }
impl SegmentBlock { pub fn read_record(&self, start_offset: u64) -> Result<Option<Record>, ReadError> { self.log.at(start_offset) } }
pub struct BucketSegmentReader { pub log: Log }
impl BucketSegmentReader { pub fn read_record(&mut self, start_offset: u64, _hint: ReadHint) -> Result<Option<Record>, ReadError> { self.log.at(start_offset) } }

//@item SegmentBlock::read_committed_events
//@item BucketSegmentReader::read_committed_events

#[cfg(kani)]
mod verif {
    use super::*;

    fn tx_id(n: u8, single: bool) -> Uuid { Uuid { hi: n as u64, lo: if single { 1u64 << 63 } else { 0 } } }
    /// A well-formed log as the writer produces it (handle_write): two transactions, each either one flagged event or
    /// k unflagged events followed by a commit record carrying k; the LAST transaction may be cut anywhere (crash).
    /// Returns the log and, per record, (transaction number, index inside the transaction, events in the transaction).
    struct B { recs: [Option<Record>; LOG_CAP], meta: [(u8, u8, u8); LOG_CAP], n: usize, off: u64, complete: usize }
    impl B {
        fn ev(&mut self, t: u8, i: u8, k: u8, single: bool) {
            let size: u64 = kani::any(); kani::assume(size >= 60 && size <= 70);
            self.recs[self.n] = Some(Record::Event(EventRecord { offset: self.off, event_id: Uuid { hi: 7, lo: t as u64 }, transaction_id: tx_id(t, single), size }));
            self.meta[self.n] = (t, i, k); self.n += 1; self.off += size;
        }
        fn commit(&mut self, t: u8, k: u8) {
            self.recs[self.n] = Some(Record::Commit(CommitRecord { offset: self.off, transaction_id: tx_id(t, false), timestamp: 0, confirmation_count: 0, event_count: k as u32 }));
            self.meta[self.n] = (t, k, k); self.n += 1; self.off += COMMIT_SIZE as u64;
        }
    }
    fn any_wf_log() -> (Log, [(u8, u8, u8); LOG_CAP], usize) {
        let mut b = B { recs: [const { None }; LOG_CAP], meta: [(0u8, 0u8, 0u8); LOG_CAP], n: 0, off: 50, complete: 0 };
        // first transaction: single, complete pair, or a pair cut after 1 or 2 events (a crash, after which the writer reopened
        // and kept appending: Writer::open resumes after the last intact RECORD, so an uncommitted tail stays in the log)
        let shape1: u8 = kani::any();
        kani::assume(shape1 <= 3);
        if shape1 == 0 { b.ev(1, 0, 1, true); }
        if shape1 == 1 { b.ev(1, 0, 2, false); b.ev(1, 1, 2, false); b.commit(1, 2); }
        if shape1 == 2 { b.ev(1, 0, 2, false); }
        if shape1 == 3 { b.ev(1, 0, 2, false); b.ev(1, 1, 2, false); }
        // second transaction: absent, single, complete pair, or a pair cut after 1 or 2 events
        let shape2: u8 = kani::any();
        kani::assume(shape2 <= 4);
        if shape2 == 1 { b.ev(2, 0, 1, true); }
        if shape2 == 2 { b.ev(2, 0, 2, false); b.ev(2, 1, 2, false); b.commit(2, 2); }
        if shape2 == 3 { b.ev(2, 0, 2, false); }
        if shape2 == 4 { b.ev(2, 0, 2, false); b.ev(2, 1, 2, false); }
        (Log { recs: b.recs, n: b.n }, b.meta, b.complete)
    }
    fn offset_of(log: &Log, i: usize) -> u64 { match log.recs[i].as_ref().unwrap() { Record::Event(e) => e.offset, Record::Commit(c) => c.offset } }

    /// does the transaction that record i belongs to have its commit record in the log?
    fn committed(log: &Log, meta: &[(u8, u8, u8); LOG_CAP], i: usize) -> bool {
        if meta[i].2 == 1 { return true; }
        let mut j = 0;
        while j < log.n { if meta[j].0 == meta[i].0 && matches!(log.recs[j], Some(Record::Commit(_))) { return true; } j += 1; }
        false
    }
    fn check(log: &Log, meta: &[(u8, u8, u8); LOG_CAP], _complete: usize, start: usize, r: Result<(Option<CommittedEvents>, Option<u64>), ReadError>) {
        let (res, next) = match r { Ok(x) => x, Err(_) => { assert!(false, "reading at a record boundary of a well-formed log never fails"); loop {} } };
        kani::cover!(matches!(&res, Some(CommittedEvents::Transaction { events, .. }) if events.len() >= 2), "reachable: a committed multi-event transaction is returned");
        kani::cover!(res.is_none(), "reachable: nothing committed at this position");
        match res {
            Some(CommittedEvents::Single(e)) => {
                assert!(e.offset == offset_of(log, start), "a single event is the record at the requested offset");
                assert!(get_uuid_flag(&e.transaction_id) && meta[start].2 == 1, "only single-event transactions are returned alone");
                assert!(next == Some(e.offset + e.size));
            }
            Some(CommittedEvents::Transaction { events, commit }) => {
                // the commit record is in the log
                let mut j = start;
                while j < log.n && offset_of(log, j) != commit.offset { j += 1; }
                assert!(j < log.n && matches!(log.recs[j], Some(Record::Commit(_))), "a transaction is returned only if its commit record is in the log");
                assert!(next == Some(commit.offset + COMMIT_SIZE as u64));
                let (txn, _, k) = meta[j];
                assert!(commit.event_count == k as u32);
                let cnt = events.len();
                assert!(cnt >= 1 && cnt <= j - start, "events lie between the requested offset and the commit");
                let first = j - cnt;
                // the returned events are exactly the records immediately before the commit, all of the commit's transaction
                let mut i = 0;
                while i < cnt {
                    assert!(events[i].offset == offset_of(log, first + i) && events[i].transaction_id == commit.transaction_id && meta[first + i].0 == txn, "only events of the committed transaction, in log order, none of another transaction");
                    i += 1;
                }
                // everything skipped before them belongs to transactions whose commit record is missing
                let mut s = start;
                while s < first { assert!(!committed(log, meta, s), "only events of uncommitted transactions are skipped"); s += 1; }
                // all-or-nothing: every sibling from the requested offset on is returned; from its first event: ALL of them
                if meta[start].0 == txn { assert!(first == start, "every sibling event between the requested offset and the commit is returned"); }
                if meta[first].1 == 0 { assert!(cnt == k as usize, "read from its first event, a transaction is returned with ALL of its events"); }
            }
            None => {
                match next {
                    None => {
                        // ran off the end
                        assert!(!committed(log, meta, start), "nothing is returned only for a transaction whose commit record is missing");
                    }
                    Some(nx) => {
                        assert!(matches!(log.recs[start], Some(Record::Commit(_))), "a skipped record is a commit record read on its own");
                        assert!(nx == offset_of(log, start) + COMMIT_SIZE as u64);
                    }
                }
            }
        }
    }

    #[kani::proof]
    #[kani::unwind(8)]
    fn tx_block_reader_all_or_nothing() {
        let (log, meta, complete) = any_wf_log();
        kani::assume(log.n >= 1);
        let start: usize = kani::any();
        kani::assume(start < log.n);
        let b = SegmentBlock { log: log.clone() };
        let r = b.read_committed_events(offset_of(&log, start));
        check(&log, &meta, complete, start, r);
    }

    #[kani::proof]
    #[kani::unwind(8)]
    fn tx_file_reader_all_or_nothing() {
        let (log, meta, complete) = any_wf_log();
        kani::assume(log.n >= 1);
        let start: usize = kani::any();
        kani::assume(start < log.n);
        let mut b = BucketSegmentReader { log: log.clone() };
        let r = b.read_committed_events(offset_of(&log, start), ReadHint::Sequential);
        check(&log, &meta, complete, start, r);
    }
}
