// U08 (Kani) — storage placement vs. cluster routing (C13): TopologyManager::{calculate_assigned_partitions, calculate_partition_replicas} (C14) and
// AppConfig::{assigned_buckets, assigned_partitions, node_count} (C13), extracted verbatim, compiled against the
// model HashMap/HashSet (D4) and the real arrayvec crate. Spec: replica_nodes(b, N, rf) = { (b % N + k) % N | k < min(rf, N) }.
#![allow(unused, dead_code)]
//@include shims/model_hash.rs CAP=8
use arrayvec::ArrayVec;

// ---- environment (D4): the cluster key is any cloneable ordered token; config error / value types are opaque ----
pub trait ClusterKey: Clone + Ord {}
impl ClusterKey for usize {}
#[derive(Debug)]
pub enum ConfigError { Message(String) }
#[derive(Debug)]
pub struct Value;

//@item MAX_REPLICATION_FACTOR
//@item PartitionId
//@item BucketId
//@item TopologyManager
//@item TopologyManager::calculate_assigned_partitions
//@item AppConfig
//@item BucketConfig
//@item NodeConfig
//@item PartitionConfig
//@item ReplicationConfig
//@item AppConfig::assigned_buckets
//@item AppConfig::assigned_partitions
//@item AppConfig::node_count

#[cfg(kani)]
mod verif {
    use super::*;
    type TM = TopologyManager<usize>;

    fn cfg(node_count: u32, index: u32, buckets: u16, parts: u16, rf: u8) -> AppConfig {
        AppConfig {
            bucket: BucketConfig { count: buckets, ids: None },
            node: NodeConfig { count: Some(node_count), index },
            partition: PartitionConfig { count: parts, ids: None },
            replication: ReplicationConfig { factor: rf },
            nodes: None,
        }
    }
    /// C13 for ONE validated configuration (concrete node count / bucket count / partition count / replication factor, every
    /// node index): the buckets a node opens are exactly the buckets of the partitions the topology assigns to it.
    fn agree(n: u32, b: u16, parts: u16, rf: u8) {
        // the clauses of AppConfig::validate that concern placement
        assert!(n >= 1 && b >= 1 && parts >= b && parts as u32 >= n && rf >= 1 && rf as u32 <= n);
        let mut idx: u32 = 0;
        while idx < n { agree_at(n, idx, b, parts, rf); idx += 1; }
    }
    fn agree_at(n: u32, idx: u32, b: u16, parts: u16, rf: u8) {
        let c = cfg(n, idx, b, parts, rf);
        let buckets = match c.assigned_buckets() { Ok(x) => x, Err(_) => { assert!(false); loop {} } };
        let stored = c.assigned_partitions(&buckets);
        let routed = TM::calculate_assigned_partitions(idx as usize, n as usize, parts, b, rf);
        let mut q: u16 = 0;
        while q < parts {
            assert!(stored.contains(&q) == routed.contains(&q), "a partition routed to this node is stored by it, and vice versa");
            q += 1;
        }
        let mut bk: u16 = 0;
        while bk < b {
            let primary = bk as usize % n as usize;
            let off = (idx as usize + n as usize - primary) % n as usize;
            assert!(buckets.contains(&bk) == (off < rf as usize), "the buckets a node opens are exactly the buckets whose replica set contains it");
            bk += 1;
        }
    }

    // configurations in which contiguous ranges and `bucket % N` coincide (one node, full replication, or at most one bucket per node)
    #[kani::proof] #[kani::unwind(10)] fn placement_single_node() { agree(1, 1, 1, 1); agree(1, 3, 5, 1); agree(1, 4, 4, 1); }
    #[kani::proof] #[kani::unwind(10)] fn placement_full_replication() { agree(2, 2, 4, 2); agree(2, 3, 5, 2); agree(2, 4, 6, 2); agree(3, 3, 3, 3); agree(3, 4, 6, 3); agree(3, 5, 5, 3); }
    #[kani::proof] #[kani::unwind(10)] fn placement_few_buckets() { agree(2, 1, 2, 1); agree(2, 2, 3, 1); agree(3, 2, 3, 1); agree(3, 3, 6, 1); agree(3, 3, 4, 2); agree(3, 2, 5, 2); }
    // partial replication with more buckets than nodes
    #[kani::proof] #[kani::unwind(10)] fn placement_partial_replication() {
//@uncarved KF-C13-contiguous-vs-modulo         agree(2, 4, 4, 1); agree(2, 3, 6, 1); agree(3, 4, 6, 1); agree(3, 5, 6, 2); agree(3, 6, 6, 2);
        agree(2, 2, 2, 1);
    }
}
