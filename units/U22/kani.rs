// U22 (Kani) — which sealed segment a stream / partition scan starts in (C03): `try_get_from_reader_set` of the two IterConfig
// impls in sierradb/src/bucket/iter.rs, extracted verbatim. The closed indexes (MPHF / bloom filter, external crates) are behind
// a lookup-table contract (D4).
#![allow(unused, dead_code)]
pub type PartitionId = u16;
#[derive(Clone, Copy, Debug, PartialEq, Eq)]
pub struct StreamId(pub u8);
//@item IterDirection

/// D4: Vec as a fixed-capacity array (offset lists of <= 3 entries)
pub const CAP: usize = 3;
#[derive(Clone, Copy, Debug, PartialEq, Eq)]
pub struct Vec<T: Copy> { pub slots: [Option<T>; CAP], pub n: usize }
impl<T: Copy> Vec<T> {
    pub fn len(&self) -> usize { self.n }
    pub fn into_iter(self) -> VecIter<T> { VecIter { v: self, i: 0 } }
}
pub struct VecIter<T: Copy> { v: Vec<T>, i: usize }
impl<T: Copy> Iterator for VecIter<T> { type Item = T; fn next(&mut self) -> Option<T> { if self.i < self.v.n { self.i += 1; self.v.slots[self.i - 1] } else { None } } }
impl<T: Copy> FromIterator<T> for Vec<T> { fn from_iter<I: IntoIterator<Item = T>>(it: I) -> Self { let mut v = Vec { slots: [None; CAP], n: 0 }; for x in it { assert!(v.n < CAP, "model capacity"); v.slots[v.n] = Some(x); v.n += 1; } v } }

#[derive(Clone, Copy, Debug, PartialEq, Eq)]
pub struct PartitionSequenceOffset { pub sequence: u64, pub offset: u64 }
#[derive(Clone, Copy, Debug)]
pub struct PartitionIndexKey { pub sequence_min: u64, pub sequence_max: u64, pub token: u8 }
#[derive(Clone, Copy, Debug)]
pub struct StreamIndexKey { pub version_min: u64, pub version_max: u64, pub token: u8 }
#[derive(Debug)]
pub struct PartitionIndexError;
#[derive(Debug)]
pub struct StreamIndexError;
/// closed partition index of ONE sealed segment: holds the scanned partition (with this key and these offsets) or not
pub struct ClosedPartitionIndex { pub pid: PartitionId, pub key: Option<PartitionIndexKey>, pub offsets: Vec<PartitionSequenceOffset> }
impl ClosedPartitionIndex {
    pub fn get_key(&mut self, p: PartitionId) -> Result<Option<PartitionIndexKey>, PartitionIndexError> { Ok(if p == self.pid { self.key } else { None }) }
    pub fn get_from_key(&mut self, k: PartitionIndexKey) -> Result<Vec<PartitionSequenceOffset>, PartitionIndexError> { assert!(k.token == 7, "the key handed back is the one get_key returned"); Ok(self.offsets) }
}
pub struct ClosedStreamIndex { pub sid: StreamId, pub key: Option<StreamIndexKey>, pub offsets: Vec<u64> }
impl ClosedStreamIndex {
    pub fn get_key(&mut self, s: &StreamId) -> Result<Option<StreamIndexKey>, StreamIndexError> { Ok(if *s == self.sid { self.key } else { None }) }
    pub fn get_from_key(&mut self, k: StreamIndexKey) -> Result<Vec<u64>, StreamIndexError> { assert!(k.token == 7, "the key handed back is the one get_key returned"); Ok(self.offsets) }
}
pub struct ReaderSet { pub partition_index: Option<ClosedPartitionIndex>, pub stream_index: Option<ClosedStreamIndex> }
/// the trait, reduced to the method under contract
/// (the associated error type lives in a supertrait so that the extracted single-method impls are complete)
pub trait HasError { type Error; }
impl HasError for PartitionIterConfig { type Error = PartitionIndexError; }
impl HasError for StreamIterConfig { type Error = StreamIndexError; }
pub trait IterConfig: HasError {
    fn try_get_from_reader_set(&self, reader_set: &mut ReaderSet, from_position: u64, dir: IterDirection, segment_index: usize, segments_len: usize) -> Result<Option<(Vec<u64>, usize)>, Self::Error>;
}
//@item PartitionIterConfig
//@item StreamIterConfig
//@item PartitionIterConfig::try_get_from_reader_set
//@item StreamIterConfig::try_get_from_reader_set

#[cfg(kani)]
mod verif {
    use super::*;
    fn any_dir() -> IterDirection { if kani::any() { IterDirection::Forward } else { IterDirection::Reverse } }
    fn expect_index(from: u64, min: u64, len: usize, dir: IterDirection) -> usize {
        if matches!(dir, IterDirection::Reverse) && from == u64::MAX { len } else { let d = from.saturating_sub(min); if d > len as u64 { len } else { d as usize } }
    }

    #[kani::proof]
    #[kani::unwind(5)]
    fn seg_select_partition() {
        let n: usize = kani::any();
        kani::assume(n <= CAP);
        let offs = Vec { slots: [Some(PartitionSequenceOffset { sequence: kani::any(), offset: kani::any() }), Some(PartitionSequenceOffset { sequence: kani::any(), offset: kani::any() }), Some(PartitionSequenceOffset { sequence: kani::any(), offset: kani::any() })], n };
        let min: u64 = kani::any();
        let present: bool = kani::any();
        let has_index: bool = kani::any();
        let mut rs = ReaderSet { partition_index: if has_index { Some(ClosedPartitionIndex { pid: 3, key: if present { Some(PartitionIndexKey { sequence_min: min, sequence_max: kani::any(), token: 7 }) } else { None }, offsets: offs }) } else { None }, stream_index: None };
        let from: u64 = kani::any();
        let dir = any_dir();
        let len: usize = kani::any();
        let idx: usize = kani::any();
        kani::assume(len >= 1 && len <= 4 && idx < len);
        let cfg = PartitionIterConfig { partition_id: 3 };
        kani::cover!(has_index && present && min > from && idx == len - 1 && matches!(dir, IterDirection::Reverse), "reachable: reverse scan from below the newest sealed segment's first sequence");
        let r = cfg.try_get_from_reader_set(&mut rs, from, dir, idx, len);
        let accept = has_index && present && (min <= from || idx == 0 || (matches!(dir, IterDirection::Reverse) && idx == len - 1));
        match r {
            Ok(Some((file_offsets, i))) => {
                assert!(accept, "a segment is only chosen if it holds the partition and its first sequence is at or below the start (or it is the oldest / for reverse scans the newest segment)");
                assert!(file_offsets.n == n, "every offset of the partition in this segment");
                let mut k = 0; while k < n { assert!(file_offsets.slots[k] == Some(offs.slots[k].unwrap().offset), "offsets unchanged and in order"); k += 1; }
                assert!(i == expect_index(from, min, n, dir), "the scan starts at the event whose sequence is the start position (clamped to the list; its end for a reverse scan from the end)");
            }
            Ok(None) => { assert!(!accept, "a segment that holds the partition and starts at or below the start position is never skipped (its events would be missing from the scan)"); }
            Err(_) => { assert!(false, "the lookup model does not fail"); }
        }
    }

    #[kani::proof]
    #[kani::unwind(5)]
    fn seg_select_stream() {
        let n: usize = kani::any();
        kani::assume(n <= CAP);
        let offs: Vec<u64> = Vec { slots: [Some(kani::any()), Some(kani::any()), Some(kani::any())], n };
        let min: u64 = kani::any();
        let present: bool = kani::any();
        let has_index: bool = kani::any();
        let mut rs = ReaderSet { partition_index: None, stream_index: if has_index { Some(ClosedStreamIndex { sid: StreamId(1), key: if present { Some(StreamIndexKey { version_min: min, version_max: kani::any(), token: 7 }) } else { None }, offsets: offs }) } else { None } };
        let from: u64 = kani::any();
        let dir = any_dir();
        let len: usize = kani::any();
        let idx: usize = kani::any();
        kani::assume(len >= 1 && len <= 4 && idx < len);
        let cfg = StreamIterConfig { stream_id: StreamId(1) };
        kani::cover!(has_index && present && min <= from && idx > 0 && idx < len - 1, "reachable: a middle segment that holds the start");
        let r = cfg.try_get_from_reader_set(&mut rs, from, dir, idx, len);
        let accept = has_index && present && (min <= from || idx == 0 || (matches!(dir, IterDirection::Reverse) && idx == len - 1));
        match r {
            Ok(Some((file_offsets, i))) => {
                assert!(accept, "a segment is only chosen if it holds the stream and its first version is at or below the start (or it is the oldest / for reverse scans the newest segment)");
                assert!(file_offsets == offs, "the stream's offsets in this segment, unchanged");
                assert!(i == expect_index(from, min, n, dir), "the scan starts at the event whose version is the start position (clamped; the end for a reverse scan from the end)");
            }
            Ok(None) => { assert!(!accept, "a segment that holds the stream and starts at or below the start position is never skipped"); }
            Err(_) => { assert!(false, "the lookup model does not fail"); }
        }
    }
}
