// U18 (Kani) — EMAPPEND response construction (C22): the per-event stream-version reconstruction, a SLICE (R5) of
// `impl HandleRequest for EMAppend` in sierradb-server/src/request/emappend.rs lifted verbatim. The append result reports, per
// stream, the LAST version written; the response must report for the i-th event of a stream the version last - (k - 1 - i).
#![allow(unused, dead_code)]
//@include shims/model_hash.rs CAP=4

#[derive(Clone, Copy, Debug, PartialEq, Eq, Hash)]
pub struct StreamId(pub u8);
#[derive(Clone, Copy, Debug, PartialEq, Eq)]
pub struct Uuid(pub u8);
pub type PartitionId = u16;
pub struct AppendResultLite { pub stream_versions: HashMap<StreamId, u64>, pub first_partition_sequence: u64, pub last_partition_sequence: u64 }
/// the request: only the field the response construction reads
pub struct EMAppend { pub partition_key: Uuid }
/// D4: the list of (event id, timestamp, stream) triples and the reply's event list are fixed-capacity array models
pub struct Triples { pub items: [Option<(Uuid, u64, StreamId)>; 3], pub lo: usize, pub hi: usize }
impl Iterator for Triples { type Item = (Uuid, u64, StreamId); fn next(&mut self) -> Option<Self::Item> { if self.lo < self.hi { self.lo += 1; self.items[self.lo - 1].take() } else { None } } }
impl DoubleEndedIterator for Triples { fn next_back(&mut self) -> Option<Self::Item> { if self.lo < self.hi { self.hi -= 1; self.items[self.hi].take() } else { None } } }
#[derive(Debug)]
pub struct Vec<T> { pub slots: [Option<T>; 3], pub n: usize }
impl<T> Vec<T> {
    pub fn reverse(&mut self) { let mut i = 0; while i + 1 < self.n - i { self.slots.swap(i, self.n - 1 - i); i += 1; } }
    pub fn at(&self, i: usize) -> &T { self.slots[i].as_ref().unwrap() }
}
impl<T> FromIterator<T> for Vec<T> { fn from_iter<I: IntoIterator<Item = T>>(it: I) -> Self { let mut v = Vec { slots: [const { None }; 3], n: 0 }; for x in it { assert!(v.n < 3, "model capacity"); v.slots[v.n] = Some(x); v.n += 1; } v } }

//@item EventInfo
//@item EMAppendResp
impl EMAppend {
//@item emappend_versions_slice
}

#[cfg(kani)]
mod verif {
    use super::*;

    #[kani::proof]
    #[kani::unwind(5)]
    fn emappend_versions() {
        let n: usize = kani::any();
        kani::assume(n >= 1 && n <= 3);
        // stream of each event (2 streams)
        let s: [u8; 3] = [kani::any::<u8>() % 2, kani::any::<u8>() % 2, kani::any::<u8>() % 2];
        let k0 = (0..n).filter(|i| s[*i] == 0).count() as u64;
        let k1 = n as u64 - k0;
        // the append result: last version written per stream; a stream that got k events ends at a version >= k - 1
        let (l0, l1): (u64, u64) = (kani::any(), kani::any());
        kani::assume((k0 == 0 || l0 >= k0 - 1) && (k1 == 0 || l1 >= k1 - 1));
        let mut sv = HashMap::new();
        if k0 > 0 { sv.insert(StreamId(0), l0); }
        if k1 > 0 { sv.insert(StreamId(1), l1); }
        let items = [
            Some((Uuid(0), 10, StreamId(s[0]))),
            if n > 1 { Some((Uuid(1), 11, StreamId(s[1]))) } else { None },
            if n > 2 { Some((Uuid(2), 12, StreamId(s[2]))) } else { None },
        ];
        kani::cover!(n == 3 && k0 == 2 && l0 == 1, "reachable: two events of a new stream among three");
        let (fs, ls): (u64, u64) = (kani::any(), kani::any());
        let req = EMAppend { partition_key: Uuid(42) };
        let resp = match req.emappend_versions_slice(AppendResultLite { stream_versions: sv, first_partition_sequence: fs, last_partition_sequence: ls }, Triples { items, lo: 0, hi: n }, 5) { Ok(Some(r)) => r, _ => { assert!(false, "a successful append is answered with the EMAPPEND response"); return; } };
        assert!(resp.partition_key == Uuid(42) && resp.partition_id == 5 && resp.first_partition_sequence == fs && resp.last_partition_sequence == ls, "partition key, id and the sequence range of the append result");
        let events = resp.events;
        assert!(events.n == n, "one response entry per event, in request order");
        let mut seen0 = 0u64;
        let mut seen1 = 0u64;
        let mut i = 0;
        while i < n {
            let e = events.at(i);
            assert!(e.event_id == Uuid(i as u8) && e.stream_id == StreamId(s[i]) && e.timestamp == 10 + i as u64, "ids, streams and timestamps in request order");
            if s[i] == 0 { assert!(e.stream_version == l0 - (k0 - 1 - seen0), "i-th event of a stream reports last - (k - 1 - i)"); seen0 += 1; }
            else { assert!(e.stream_version == l1 - (k1 - 1 - seen1), "i-th event of a stream reports last - (k - 1 - i)"); seen1 += 1; }
            i += 1;
        }
    }
}
