// U07b (Kani) — TopologyManager::get_available_replicas (C14: "every node that knows the same live members computes the same
// replica sets and the same coordinator order"): extracted verbatim against the model HashMap and a bounded-sequence model of ArrayVec (D4).
// Contract: the result is exactly the replicas of the partition that are active, ordered by (alive_since, replica key) — a
// function of the partition's replica list and the membership view only (not of heartbeat arrival times or map iteration order).
#![allow(unused, dead_code)]
//@include shims/model_hash.rs CAP=4
/// arrayvec::ArrayVec as a bounded sequence (D4): the operations get_available_replicas uses. `sort_by` is a stable insertion
/// sort (std's slice::sort_by is trusted to be a stable sort; only "sorted stable permutation w.r.t. the comparator" is used).
#[derive(Clone, Debug)]
pub struct ArrayVec<T, const CAP: usize> { pub data: [Option<T>; CAP], pub n: usize }
impl<T, const CAP: usize> Default for ArrayVec<T, CAP> { fn default() -> Self { Self::new() } }
impl<T, const CAP: usize> ArrayVec<T, CAP> {
    pub fn new() -> Self { ArrayVec { data: [const { None }; CAP], n: 0 } }
    pub fn len(&self) -> usize { self.n }
    pub fn is_empty(&self) -> bool { self.n == 0 }
    pub fn push(&mut self, t: T) { assert!(self.n < CAP, "ArrayVec capacity exceeded"); self.data[self.n] = Some(t); self.n += 1; }
    pub fn iter(&self) -> impl Iterator<Item = &T> + '_ { self.data[..self.n].iter().map(|s| s.as_ref().unwrap()) }
    pub fn first(&self) -> Option<&T> { if self.n == 0 { None } else { self.data[0].as_ref() } }
    pub fn sort_by<F: FnMut(&T, &T) -> std::cmp::Ordering>(&mut self, mut f: F) {
        let mut i = 1;
        while i < self.n {
            let mut j = i;
            while j > 0 && f(self.data[j - 1].as_ref().unwrap(), self.data[j].as_ref().unwrap()) == std::cmp::Ordering::Greater { self.data.swap(j - 1, j); j -= 1; }
            i += 1;
        }
    }
}
impl<T, const CAP: usize> std::ops::Index<usize> for ArrayVec<T, CAP> { type Output = T; fn index(&self, i: usize) -> &T { assert!(i < self.n); self.data[i].as_ref().unwrap() } }
impl<T, const CAP: usize> FromIterator<T> for ArrayVec<T, CAP> { fn from_iter<I: IntoIterator<Item = T>>(it: I) -> Self { let mut v = Self::new(); for t in it { v.push(t); } v } }

#[derive(Clone, Copy, Debug, PartialEq, Eq, PartialOrd, Ord, Hash)]
pub struct PeerId(pub u8);
#[derive(Clone, Copy, Debug, PartialEq, Eq, PartialOrd, Ord, Hash)]
pub struct ActorId { pub peer: PeerId }
impl ActorId { pub fn peer_id(&self) -> Option<&PeerId> { Some(&self.peer) } }
pub trait ClusterKey: Clone + Ord { fn id(&self) -> ActorId; }
/// a cluster reference token: ordered by `key`, living on peer `peer`
#[derive(Clone, Copy, Debug, PartialEq, Eq, PartialOrd, Ord)]
pub struct Node { pub key: u8, pub peer: u8 }
impl ClusterKey for Node { fn id(&self) -> ActorId { ActorId { peer: PeerId(self.peer) } } }
#[derive(Clone, Copy, Debug)]
pub struct Instant(pub u64);
impl PartialEq for Instant { fn eq(&self, o: &Self) -> bool { self.0 == o.0 } } impl Eq for Instant {} impl PartialOrd for Instant { fn partial_cmp(&self, o: &Self) -> Option<std::cmp::Ordering> { Some(self.cmp(o)) } } impl Ord for Instant { fn cmp(&self, o: &Self) -> std::cmp::Ordering { self.0.cmp(&o.0) } }

//@item MAX_REPLICATION_FACTOR
//@item PartitionId
//@item TopologyManager
//@item TopologyManager::get_available_replicas

#[cfg(kani)]
mod verif {
    use super::*;

    #[kani::proof] #[kani::unwind(6)] fn topo_available_replicas_order_2() { order::<2>(); }
    #[kani::proof] #[kani::unwind(6)] fn topo_available_replicas_order_3() { order::<3>(); }
    fn order<const MAXN: usize>() {
        // a partition with up to MAXN replicas on distinct peers
        // (a shorter replica list behaves like this one with the missing replicas inactive: they are filtered out first)
        let n: usize = MAXN;
        let keys: [u8; 3] = kani::any();
        kani::assume(keys[0] != keys[1] && keys[0] != keys[2] && keys[1] != keys[2]);
        let mut reps: ArrayVec<Node, MAX_REPLICATION_FACTOR> = ArrayVec::new();
        let mut i = 0;
        while i < n { reps.push(Node { key: keys[i], peer: i as u8 }); i += 1; }
        let mut partition_replicas = HashMap::new();
        partition_replicas.insert(7u16, reps.clone());
        // membership view: each peer may be active with any alive_since; heartbeat arrival times are arbitrary
        let mut active_nodes = HashMap::new();
        let mut node_heartbeats = HashMap::new();
        let alive: [bool; 3] = kani::any();
        let since: [u64; 3] = kani::any();
        let mut p = 0;
        // an inactive peer is entered under a key no replica lives on (keeps the model map's size concrete)
        while p < 3 { active_nodes.insert(PeerId(if alive[p] { p as u8 } else { 100 + p as u8 }), (since[p], p)); node_heartbeats.insert(PeerId(p as u8), Instant(kani::any())); p += 1; }
        let m = TopologyManager { partition_replicas, active_nodes, node_heartbeats };
        let r = m.get_available_replicas(7);
        kani::cover!(r.len() == MAXN && r[0].1 == r[1].1, "reachable: all replicas active, a tie on alive_since");
        // exactly the active replicas
        let mut expect = 0;
        let mut j = 0;
        while j < n { if alive[j] { expect += 1; } j += 1; }
        assert!(r.len() == expect, "exactly the replicas that are active");
        let mut k = 0;
        while k < r.len() {
            let (node, s) = r[k];
            assert!((node.peer as usize) < n && alive[node.peer as usize] && s == since[node.peer as usize] && node.key == keys[node.peer as usize], "each entry is an active replica of the partition with its alive_since");
            if k > 0 {
                let (pn, ps) = r[k - 1];
                assert!(ps < s || (ps == s && pn.key < node.key), "coordinator order is (alive_since, replica key): a function of the membership view only");
            }
            k += 1;
        }
        // unknown partition: nothing
        assert!(m.get_available_replicas(8).is_empty());
    }
}
