// U23 (Kani) — WriterSet::handle_write (sierradb/src/writer_thread_pool.rs), extracted verbatim: the one place where an accepted
// transaction gets its partition sequences and stream versions, where the commit record is appended after the events, and where
// the index entries of not-yet-synced events are queued (C02, C04, C01). Environment (D4): a recording segment writer and
// fixed-capacity collection models.
#![allow(unused, dead_code, static_mut_refs)]
//@include shims/model_hash.rs CAP=3

pub type PartitionId = u16;
#[derive(Clone, Copy, Debug, PartialEq, Eq)]
pub struct Uuid(pub u8);
impl Uuid { pub fn into_bytes(self) -> [u8; 16] { [self.0; 16] } }
#[derive(Clone, Copy, Debug, PartialEq, Eq, Hash)]
pub struct StreamId(pub u8);
#[derive(Clone, Copy, Debug, PartialEq, Eq)]
pub struct Blob(pub u8);
pub type String = Blob;
pub fn get_uuid_flag(u: &Uuid) -> bool { u.0 & 1 == 1 }
pub fn verif_any_u64() -> u64 { #[cfg(kani)] { kani::any() } #[cfg(not(kani))] { 0 } }
#[derive(Clone, Copy, Debug, PartialEq, Eq)]
pub enum ExpectedVersion { Any, Empty, Exact(u64) }
#[derive(Clone, Copy, Debug, PartialEq, Eq)]
pub enum CurrentVersion { Current(u64), Empty }
impl CurrentVersion { pub fn next(&self) -> u64 { match self { CurrentVersion::Current(v) => v + 1, CurrentVersion::Empty => 0 } } }
#[derive(Debug)]
pub enum WriteError { BadSystemTime, Io, InvalidTimestamp, WrongExpectedSequence, Index }
pub struct InvalidTimestamp;
impl From<InvalidTimestamp> for WriteError { fn from(_: InvalidTimestamp) -> Self { WriteError::InvalidTimestamp } }
/// validate_partition_sequence behind the contract proved in units/U04: accepts iff the expectation holds for `next`
pub fn validate_partition_sequence(_p: PartitionId, expected: ExpectedVersion, next: u64) -> Result<(), WriteError> {
    let ok = match expected { ExpectedVersion::Any => true, ExpectedVersion::Empty => next == 0, ExpectedVersion::Exact(v) => next > 0 && v == next - 1 };
    if ok { Ok(()) } else { Err(WriteError::WrongExpectedSequence) }
}

// ---- collections (D4) ----
pub const CAP: usize = 4;
#[derive(Debug, Clone)]
pub struct Vec<T> { pub slots: [Option<T>; CAP], pub n: usize }
impl<T> Vec<T> {
    pub fn new() -> Self { Vec { slots: [const { None }; CAP], n: 0 } }
    pub fn with_capacity(_c: usize) -> Self { Self::new() }
    pub fn reserve(&mut self, _c: usize) {}
    pub fn len(&self) -> usize { self.n }
    pub fn is_empty(&self) -> bool { self.n == 0 }
    pub fn push(&mut self, v: T) { assert!(self.n < CAP, "model capacity"); self.slots[self.n] = Some(v); self.n += 1; }
    pub fn extend<I: IntoIterator<Item = T>>(&mut self, it: I) { for x in it { self.push(x); } }
    pub fn at(&self, i: usize) -> &T { self.slots[i].as_ref().unwrap() }
}
pub struct VecIntoIter<T> { v: Vec<T>, i: usize }
impl<T> Iterator for VecIntoIter<T> { type Item = T; fn next(&mut self) -> Option<T> { if self.i < self.v.n { self.i += 1; self.v.slots[self.i - 1].take() } else { None } } }
impl<T> IntoIterator for Vec<T> { type Item = T; type IntoIter = VecIntoIter<T>; fn into_iter(self) -> VecIntoIter<T> { VecIntoIter { v: self, i: 0 } } }
/// SmallVec<[T; N]>: the same array model (the inline capacity is not observable)
pub struct SmallVec<A: Arr> { pub v: Vec<A::T> }
pub trait Arr { type T; }
impl<T, const N: usize> Arr for [T; N] { type T = T; }
impl<A: Arr> SmallVec<A> {
    pub fn with_capacity(_c: usize) -> Self { SmallVec { v: Vec::new() } }
    pub fn len(&self) -> usize { self.v.n }
    pub fn is_empty(&self) -> bool { self.v.n == 0 }
    pub fn push(&mut self, x: A::T) { self.v.push(x) }
}
impl<A: Arr> IntoIterator for SmallVec<A> { type Item = A::T; type IntoIter = VecIntoIter<A::T>; fn into_iter(self) -> VecIntoIter<A::T> { self.v.into_iter() } }

// ---- record format and the segment writer: recorders ----
#[derive(Clone, Copy, Debug)]
pub struct NewEvent { pub event_id: Uuid, pub stream_id: StreamId, pub event_name: Blob, pub timestamp: u64, pub metadata: Blob, pub payload: Blob }
#[derive(Clone, Copy, Debug)]
pub struct RecordHeader { pub commit: bool, pub timestamp: u64, pub transaction_id: Uuid }
impl RecordHeader {
    /// segment/format.rs: the kind shares a u64 with the timestamp, whose top bit must be clear
    pub fn new_event(timestamp: u64, transaction_id: Uuid) -> Result<Self, InvalidTimestamp> { if timestamp >> 63 != 0 { Err(InvalidTimestamp) } else { Ok(RecordHeader { commit: false, timestamp, transaction_id }) } }
    pub fn new_commit(timestamp: u64, transaction_id: Uuid) -> Result<Self, InvalidTimestamp> { if timestamp >> 63 != 0 { Err(InvalidTimestamp) } else { Ok(RecordHeader { commit: true, timestamp, transaction_id }) } }
}
pub struct ShortString(pub Blob);
pub struct LongBytes(pub Blob);
pub struct RawEvent { pub header: RecordHeader, pub event_id: [u8; 16], pub partition_key: [u8; 16], pub partition_id: PartitionId, pub partition_sequence: u64, pub stream_version: u64, pub stream_id: StreamId, pub event_name: ShortString, pub metadata: LongBytes, pub payload: LongBytes }
pub struct RawCommit { pub header: RecordHeader, pub event_count: u32 }
/// one record as the log received it
#[derive(Clone, Copy, Debug, PartialEq, Eq)]
pub enum Rec { Event { id: u8, tx: Uuid, seq: u64, ver: u64, stream: StreamId, pid: PartitionId }, Commit { tx: Uuid, count: u32 } }
pub struct BucketSegmentWriter { pub log: [Option<Rec>; 4], pub n: usize, pub offset: u64, pub fail_at: usize, pub flush_fails: bool, pub flushed: u32 }
impl BucketSegmentWriter {
    fn put(&mut self, r: Rec, len: usize) -> Result<(u64, usize), WriteError> {
        if self.n == self.fail_at { return Err(WriteError::Io); }
        assert!(self.n < 4, "model capacity");
        self.log[self.n] = Some(r); self.n += 1;
        let at = self.offset; self.offset += len as u64;
        Ok((at, len))
    }
    pub fn append_event(&mut self, _c: u8, e: &RawEvent) -> Result<(u64, usize), WriteError> { self.put(Rec::Event { id: e.event_id[0], tx: e.header.transaction_id, seq: e.partition_sequence, ver: e.stream_version, stream: e.stream_id, pid: e.partition_id }, 40) }
    pub fn append_commit(&mut self, _c: u8, c: &RawCommit) -> Result<(u64, usize), WriteError> { assert!(c.header.commit, "a commit record carries the commit kind"); self.put(Rec::Commit { tx: c.header.transaction_id, count: c.event_count }, 24) }
    pub fn flush_writer(&mut self) -> Result<(), WriteError> { if self.flush_fails { Err(WriteError::Io) } else { self.flushed += 1; Ok(()) } }
}

//@item PendingIndex
//@item WriteOperation
//@item AppendResult
//@item WriterSet
pub static mut SYNC_CHECKS: u32 = 0;
pub static mut NEXT_SEQ_FAILS: bool = false;
impl WriterSet {
    /// units/U20: the cached next sequence, else one past the maximum over the indexes (here: any value the harness chose), or an index error
    pub fn next_partition_sequence(&mut self, pid: PartitionId) -> Result<u64, WriteError> {
        if unsafe { NEXT_SEQ_FAILS } { return Err(WriteError::Index); }
        Ok(match self.next_partition_sequences.get(&pid) { Some(v) => *v, None => 0 })
    }
    pub fn sync_if_necessary(&mut self) { unsafe { SYNC_CHECKS += 1; } }
}
//@item WriterSet::handle_write

#[cfg(kani)]
mod verif {
    use super::*;
    fn any_event() -> NewEvent { NewEvent { event_id: Uuid(kani::any()), stream_id: StreamId(kani::any::<u8>() % 2), event_name: Blob(1), timestamp: kani::any(), metadata: Blob(2), payload: Blob(3) } }
    fn any_cv() -> CurrentVersion { if kani::any() { CurrentVersion::Empty } else { let v: u64 = kani::any(); kani::assume(v < u64::MAX - 4); CurrentVersion::Current(v) } }

    #[kani::proof]
    #[kani::unwind(6)]
    fn hw_accept_and_reject() {
        // arbitrary state: <= 2 pending entries (contents arbitrary tokens), a next sequence for the partition or none
        let pid: PartitionId = 5;
        let mut nps = HashMap::new();
        let cached: Option<u64> = kani::any();
        if let Some(v) = cached { kani::assume(v < u64::MAX - 4); nps.insert(pid, v); }
        let other: u64 = kani::any();
        nps.insert(9u16, other);
        let np: usize = kani::any();
        kani::assume(np <= 2);
        let mut pending = Vec::new();
        let mk0 = || PendingIndex { event_id: Uuid(200), partition_key: Uuid(1), partition_id: 9, partition_sequence: 1, stream_id: StreamId(7), stream_version: 0, offset: 1 };
        let mk1 = || PendingIndex { event_id: Uuid(201), partition_key: Uuid(1), partition_id: pid, partition_sequence: 2, stream_id: StreamId(1), stream_version: 3, offset: 2 };
        if np > 0 { pending.push(mk0()); }
        if np > 1 { pending.push(mk1()); }
        let unflushed: u32 = kani::any();
        kani::assume(unflushed < 1000);
        let start_offset: u64 = kani::any();
        kani::assume(start_offset < 1 << 40);
        let fail_at: usize = kani::any();
        let mut ws = WriterSet { writer: BucketSegmentWriter { log: [None; 4], n: 0, offset: start_offset, fail_at, flush_fails: kani::any(), flushed: 0 }, next_partition_sequences: nps, pending_indexes: pending, unflushed_events: unflushed, bytes_since_sync: 0 };
        unsafe { NEXT_SEQ_FAILS = kani::any(); SYNC_CHECKS = 0; }
        // the transaction
        let n: usize = kani::any();
        kani::assume(n >= 1 && n <= 2);
        let (e0, e1) = (any_event(), any_event());
        let (v0, v1) = (any_cv(), any_cv());
        let tx = Uuid(kani::any());
        kani::assume(n == 1 || !get_uuid_flag(&tx)); // Transaction::new flags exactly the single-event transactions
        let mut events = SmallVec::with_capacity(2);
        events.push(e0); if n > 1 { events.push(e1); }
        let mut versions = Vec::new();
        versions.push(v0); if n > 1 { versions.push(v1); }
        let expected = if kani::any() { ExpectedVersion::Any } else if kani::any() { ExpectedVersion::Empty } else { ExpectedVersion::Exact(kani::any()) };
        let first = cached.unwrap_or(0);
        let seq_ok = match expected { ExpectedVersion::Any => true, ExpectedVersion::Empty => first == 0, ExpectedVersion::Exact(v) => first > 0 && v == first - 1 };
        kani::cover!(n == 2 && fail_at == 1, "reachable: the second record of a two-event transaction fails to be written");
        kani::cover!(n == 2 && fail_at > 3 && seq_ok && e0.timestamp >> 63 == 0 && e1.timestamp >> 63 == 0 && e0.stream_id == e1.stream_id, "reachable: an accepted two-event transaction on one stream");
        let r = ws.handle_write(WriteOperation { partition_key: Uuid(1), partition_id: pid, transaction_id: tx, events, event_versions: versions, expected_partition_sequence: expected, unique_streams: 2, confirmation_count: 1 });
        match r {
            Err(_) => {
                assert!(ws.pending_indexes.n == np, "a rejected write queues no index entry (its events are truncated from the log by the caller)");
                if np > 0 { assert!(ws.pending_indexes.at(0).event_id == Uuid(200)); }
                if np > 1 { assert!(ws.pending_indexes.at(1).event_id == Uuid(201)); }
                assert!(ws.next_partition_sequences.get(&pid).copied() == cached && ws.next_partition_sequences.get(&9u16).copied() == Some(other), "a rejected write does not advance any partition sequence");
                assert!(ws.unflushed_events == unflushed, "a rejected write is not counted as unflushed");
                if !seq_ok && !unsafe { NEXT_SEQ_FAILS } { assert!(ws.writer.n == 0, "a wrong expected partition sequence is rejected before anything is written"); }
            }
            Ok(res) => {
                assert!(seq_ok && !unsafe { NEXT_SEQ_FAILS }, "accepted only if the expected partition sequence holds");
                assert!(e0.timestamp >> 63 == 0 && (n < 2 || e1.timestamp >> 63 == 0), "an out-of-range timestamp is rejected");
                let single = get_uuid_flag(&tx);
                // the log: the events in order, then exactly one commit record iff not flagged single-event
                assert!(ws.writer.n == n + if single { 0 } else { 1 }, "event records, then one commit record unless the transaction is a flagged single event");
                assert!(ws.writer.log[0] == Some(Rec::Event { id: e0.event_id.0, tx, seq: first, ver: v0.next(), stream: e0.stream_id, pid }), "first event: the partition's next sequence, the successor of its validated stream version");
                if n > 1 { assert!(ws.writer.log[1] == Some(Rec::Event { id: e1.event_id.0, tx, seq: first + 1, ver: v1.next(), stream: e1.stream_id, pid }), "second event: the next sequence"); }
                if !single { assert!(ws.writer.log[n] == Some(Rec::Commit { tx, count: n as u32 }), "the commit record follows the events and counts them"); }
                // bookkeeping
                assert!(ws.pending_indexes.n == np + n, "one pending index entry per event");
                let q0 = ws.pending_indexes.at(np);
                assert!(q0.event_id == e0.event_id && q0.partition_id == pid && q0.partition_sequence == first && q0.stream_id == e0.stream_id && q0.stream_version == v0.next() && q0.offset == start_offset && q0.partition_key == Uuid(1), "pending entry of the first event");
                if n > 1 { let q1 = ws.pending_indexes.at(np + 1); assert!(q1.event_id == e1.event_id && q1.partition_sequence == first + 1 && q1.stream_id == e1.stream_id && q1.stream_version == v1.next() && q1.offset == start_offset + 40, "pending entry of the second event"); }
                if np > 0 { assert!(ws.pending_indexes.at(0).event_id == Uuid(200), "earlier pending entries are kept"); }
                assert!(ws.next_partition_sequences.get(&pid).copied() == Some(first + n as u64) && ws.next_partition_sequences.get(&9u16).copied() == Some(other), "the partition's next sequence advances by the number of events; other partitions are untouched");
                assert!(ws.unflushed_events == unflushed + n as u32);
                assert!(res.first_partition_sequence == first && res.last_partition_sequence == first + n as u64 - 1, "the result reports the sequences assigned");
                let last_of = |s: StreamId| -> Option<u64> { if n > 1 && e1.stream_id == s { Some(v1.next()) } else if e0.stream_id == s { Some(v0.next()) } else { None } };
                assert!(res.stream_versions.get(&StreamId(0)).copied() == last_of(StreamId(0)) && res.stream_versions.get(&StreamId(1)).copied() == last_of(StreamId(1)), "the result reports each stream's LAST version");
                assert!(res.offsets.v.n == n && *res.offsets.v.at(0) == start_offset, "the offsets the writer reported");
                assert!(ws.writer.flushed == 1 && unsafe { SYNC_CHECKS } == 1, "the buffered bytes are handed to the file and the sync policy is consulted");
            }
        }
    }
}
