// U15 (Verus) — SegmentIter::{new, is_finished, remaining_offsets, skip}: the index arithmetic that positions a forward or
// reverse scan inside one segment's offset list (C03). The async `next` / cache / reader-pool plumbing is not in this unit.
use vstd::prelude::*;
verus! {
pub assume_specification<T>[<[T]>::reverse](s: &mut [T])
    ensures final(s)@ == old(s)@.reverse();

//@item IterDirection
// ---- environment (D4): opaque pool / ids / block ----
pub struct ReaderThreadPool;
#[derive(Clone, Copy)]
pub struct BucketSegmentId { pub bucket_id: u16, pub segment_id: u32 }
pub struct SegmentBlock;
pub struct Arc<T>(pub Box<T>);

//@item SegmentIter

impl SegmentIter {
    /// what the iterator will still visit, in visiting order
    pub open spec fn remaining(&self) -> Seq<u64> {
        if self.offsets_index >= self.offsets@.len() { Seq::empty() } else { self.offsets@.subrange(self.offsets_index as int, self.offsets@.len() as int) }
    }
}
//@item SegmentIter::new
//@item SegmentIter::is_finished
//@item SegmentIter::remaining_offsets
//@item SegmentIter::skip
}
fn main() {}
