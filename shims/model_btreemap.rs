// ---- shim (Kani rendering, D4): std::collections::BTreeMap replaced by a small executable model ----
// ASSUMED CONTRACT: BTreeMap is a finite map with keys kept in ascending order. The model is a sorted
// fixed-capacity array of distinct keys exposing the API subset the extracted code uses (capacity
// MODEL_MAP_CAP; exceeding it is a harness error, reported as a failed `model capacity` assertion).
// Measured necessity: CBMC does not come back from std's B-tree node code, nor from a Vec-backed model
// (oq_insert: 469 s) — see DESIGN §11.
pub mod btree_map {
    use std::cmp::Ordering;
    pub const MODEL_MAP_CAP: usize = /*CAP*/ 4;

    #[derive(Debug)]
    pub struct BTreeMap<K, V> {
        pub slots: [Option<(K, V)>; MODEL_MAP_CAP],
        pub n: usize,
    }

    impl<K, V> Default for BTreeMap<K, V> {
        fn default() -> Self { Self::new() }
    }
    impl<K: Clone, V: Clone> Clone for BTreeMap<K, V> {
        fn clone(&self) -> Self { BTreeMap { slots: self.slots.clone(), n: self.n } }
    }

    impl<K, V> BTreeMap<K, V> {
        pub fn new() -> Self { BTreeMap { slots: [const { None }; MODEL_MAP_CAP], n: 0 } }
        pub fn len(&self) -> usize { self.n }
        pub fn is_empty(&self) -> bool { self.n == 0 }
        pub fn key_at(&self, i: usize) -> &K { &self.slots[i].as_ref().unwrap().0 }
        pub fn val_at(&self, i: usize) -> &V { &self.slots[i].as_ref().unwrap().1 }
        fn insert_at(&mut self, idx: usize, kv: (K, V)) {
            assert!(self.n < MODEL_MAP_CAP, "model capacity");
            let mut j = self.n;
            while j > idx { self.slots[j] = self.slots[j - 1].take(); j -= 1; }
            self.slots[idx] = Some(kv);
            self.n += 1;
        }
        fn remove_at(&mut self, idx: usize) -> (K, V) {
            let x = self.slots[idx].take().unwrap();
            let mut j = idx + 1;
            while j < self.n { self.slots[j - 1] = self.slots[j].take(); j += 1; }
            self.n -= 1;
            x
        }
        pub fn first_key_value(&self) -> Option<(&K, &V)> { if self.n == 0 { None } else { Some((self.key_at(0), self.val_at(0))) } }
        pub fn last_key_value(&self) -> Option<(&K, &V)> { if self.n == 0 { None } else { Some((self.key_at(self.n - 1), self.val_at(self.n - 1))) } }
        pub fn pop_first(&mut self) -> Option<(K, V)> { if self.n == 0 { None } else { Some(self.remove_at(0)) } }
        pub fn pop_last(&mut self) -> Option<(K, V)> { if self.n == 0 { None } else { let i = self.n - 1; Some(self.remove_at(i)) } }
        pub fn first_entry(&mut self) -> Option<OccupiedEntry<'_, K, V>> { if self.n == 0 { None } else { Some(OccupiedEntry { map: self, idx: 0 }) } }
        pub fn last_entry(&mut self) -> Option<OccupiedEntry<'_, K, V>> { if self.n == 0 { None } else { let idx = self.n - 1; Some(OccupiedEntry { map: self, idx }) } }
        pub fn clear(&mut self) { while self.n > 0 { let i = self.n - 1; self.remove_at(i); } }
        pub fn retain<F: FnMut(&K, &mut V) -> bool>(&mut self, mut f: F) {
            let mut i = 0;
            while i < self.n {
                let keep = { let (k, v) = self.slots[i].as_mut().unwrap(); f(k, v) };
                if keep { i += 1 } else { self.remove_at(i); }
            }
        }
        pub fn iter(&self) -> Iter<'_, K, V> { Iter { map: self, lo: 0, hi: self.n } }
        pub fn iter_mut(&mut self) -> impl DoubleEndedIterator<Item = (&K, &mut V)> + '_ { let n = self.n; self.slots[..n].iter_mut().map(|s| { let (k, v) = s.as_mut().unwrap(); (&*k, v) }) }
        pub fn values_mut(&mut self) -> impl DoubleEndedIterator<Item = &mut V> + '_ { self.iter_mut().map(|(_, v)| v) }
        pub fn keys(&self) -> Keys<'_, K, V> { Keys(self.iter()) }
        pub fn values(&self) -> Values<'_, K, V> { Values(self.iter()) }
    }
    /// concrete iterator types WITHOUT a Drop impl, like std's: a borrow held by one of them ends at its last use (an
    /// `impl Iterator + '_` return type would keep the map borrowed to the end of the scope and reject code that std accepts)
    pub struct Iter<'a, K, V> { map: &'a BTreeMap<K, V>, lo: usize, hi: usize }
    impl<'a, K, V> Iterator for Iter<'a, K, V> { type Item = (&'a K, &'a V); fn next(&mut self) -> Option<Self::Item> { if self.lo < self.hi { self.lo += 1; Some((self.map.key_at(self.lo - 1), self.map.val_at(self.lo - 1))) } else { None } } }
    impl<'a, K, V> DoubleEndedIterator for Iter<'a, K, V> { fn next_back(&mut self) -> Option<Self::Item> { if self.lo < self.hi { self.hi -= 1; Some((self.map.key_at(self.hi), self.map.val_at(self.hi))) } else { None } } }
    pub struct Keys<'a, K, V>(Iter<'a, K, V>);
    impl<'a, K, V> Iterator for Keys<'a, K, V> { type Item = &'a K; fn next(&mut self) -> Option<&'a K> { self.0.next().map(|(k, _)| k) } }
    impl<'a, K, V> DoubleEndedIterator for Keys<'a, K, V> { fn next_back(&mut self) -> Option<&'a K> { self.0.next_back().map(|(k, _)| k) } }
    pub struct Values<'a, K, V>(Iter<'a, K, V>);
    impl<'a, K, V> Iterator for Values<'a, K, V> { type Item = &'a V; fn next(&mut self) -> Option<&'a V> { self.0.next().map(|(_, v)| v) } }
    impl<'a, K, V> DoubleEndedIterator for Values<'a, K, V> { fn next_back(&mut self) -> Option<&'a V> { self.0.next_back().map(|(_, v)| v) } }
    impl<K: Ord, V> BTreeMap<K, V> {
        /// Ok(i): key at index i; Err(i): insertion point
        fn find(&self, k: &K) -> Result<usize, usize> {
            let mut i = 0;
            while i < self.n {
                match self.key_at(i).cmp(k) {
                    Ordering::Equal => return Ok(i),
                    Ordering::Greater => return Err(i),
                    Ordering::Less => {}
                }
                i += 1;
            }
            Err(i)
        }
        pub fn get(&self, k: &K) -> Option<&V> { match self.find(k) { Ok(i) => Some(self.val_at(i)), Err(_) => None } }
        pub fn get_mut(&mut self, k: &K) -> Option<&mut V> { match self.find(k) { Ok(i) => Some(&mut self.slots[i].as_mut().unwrap().1), Err(_) => None } }
        pub fn contains_key(&self, k: &K) -> bool { self.find(k).is_ok() }
        pub fn insert(&mut self, k: K, v: V) -> Option<V> {
            match self.find(&k) {
                Ok(i) => Some(std::mem::replace(&mut self.slots[i].as_mut().unwrap().1, v)),
                Err(i) => { self.insert_at(i, (k, v)); None }
            }
        }
        pub fn remove(&mut self, k: &K) -> Option<V> { match self.find(k) { Ok(i) => Some(self.remove_at(i).1), Err(_) => None } }
        pub fn remove_entry(&mut self, k: &K) -> Option<(K, V)> { match self.find(k) { Ok(i) => Some(self.remove_at(i)), Err(_) => None } }
        pub fn entry(&mut self, key: K) -> Entry<'_, K, V> {
            match self.find(&key) {
                Ok(idx) => Entry::Occupied(OccupiedEntry { map: self, idx }),
                Err(idx) => Entry::Vacant(VacantEntry { map: self, key, idx }),
            }
        }
        /// entries whose key lies in `r`, ascending
        pub fn range<R: std::ops::RangeBounds<K>>(&self, r: R) -> impl Iterator<Item = (&K, &V)> + '_ {
            use std::ops::Bound::*;
            let lo = match r.start_bound() {
                Included(k) => match self.find(k) { Ok(i) => i, Err(i) => i },
                Excluded(k) => match self.find(k) { Ok(i) => i + 1, Err(i) => i },
                Unbounded => 0,
            };
            let hi = match r.end_bound() {
                Included(k) => match self.find(k) { Ok(i) => i + 1, Err(i) => i },
                Excluded(k) => match self.find(k) { Ok(i) => i, Err(i) => i },
                Unbounded => self.n,
            };
            let hi = if hi < lo { lo } else { hi };
            self.slots[lo..hi].iter().map(|s| { let (k, v) = s.as_ref().unwrap(); (k, v) })
        }
        /// splits off everything at and after `k`
        pub fn split_off(&mut self, k: &K) -> Self {
            let i = match self.find(k) { Ok(i) => i, Err(i) => i };
            let mut out = BTreeMap::new();
            while self.n > i { let kv = self.remove_at(i); let at = out.n; out.insert_at(at, kv); }
            out
        }
    }

    pub enum Entry<'a, K, V> {
        Vacant(VacantEntry<'a, K, V>),
        Occupied(OccupiedEntry<'a, K, V>),
    }
    pub struct VacantEntry<'a, K, V> { map: &'a mut BTreeMap<K, V>, key: K, idx: usize }
    pub struct OccupiedEntry<'a, K, V> { map: &'a mut BTreeMap<K, V>, idx: usize }

    impl<'a, K, V> VacantEntry<'a, K, V> {
        pub fn key(&self) -> &K { &self.key }
        pub fn insert(self, v: V) -> &'a mut V {
            self.map.insert_at(self.idx, (self.key, v));
            &mut self.map.slots[self.idx].as_mut().unwrap().1
        }
    }
    impl<'a, K, V> OccupiedEntry<'a, K, V> {
        pub fn key(&self) -> &K { self.map.key_at(self.idx) }
        pub fn get(&self) -> &V { self.map.val_at(self.idx) }
        pub fn get_mut(&mut self) -> &mut V { &mut self.map.slots[self.idx].as_mut().unwrap().1 }
        pub fn into_mut(self) -> &'a mut V { &mut self.map.slots[self.idx].as_mut().unwrap().1 }
        pub fn insert(&mut self, v: V) -> V { std::mem::replace(&mut self.map.slots[self.idx].as_mut().unwrap().1, v) }
        pub fn remove(self) -> V { self.map.remove_at(self.idx).1 }
        pub fn remove_entry(self) -> (K, V) { self.map.remove_at(self.idx) }
    }
    impl<'a, K, V> Entry<'a, K, V> {
        pub fn or_insert(self, default: V) -> &'a mut V { match self { Entry::Occupied(e) => e.into_mut(), Entry::Vacant(e) => e.insert(default) } }
        pub fn or_insert_with<F: FnOnce() -> V>(self, f: F) -> &'a mut V { match self { Entry::Occupied(e) => e.into_mut(), Entry::Vacant(e) => e.insert(f()) } }
        pub fn or_default(self) -> &'a mut V where V: Default { self.or_insert_with(V::default) }
        pub fn and_modify<F: FnOnce(&mut V)>(mut self, f: F) -> Self { if let Entry::Occupied(e) = &mut self { f(e.get_mut()); } self }
        pub fn key(&self) -> &K { match self { Entry::Occupied(e) => e.key(), Entry::Vacant(e) => e.key() } }
    }
}
pub use btree_map::BTreeMap;
