// ---- shim (Kani rendering, D4): std::collections::{HashMap, HashSet} replaced by small executable models ----
// ASSUMED CONTRACT: finite map / finite set. Backed by an insertion-ordered fixed-capacity array
// (capacity MODEL_HASH_CAP; exceeding it fails a `model capacity` assertion in the harness). Iteration order is
// insertion order, which is ONE of the orders a real HashMap may produce (order-independence is NOT checked).
// Measured necessity: CBMC does not come back from hashbrown's probing loops (DESIGN §11).
pub mod model_hash {
    pub const MODEL_HASH_CAP: usize = /*CAP*/ 8;

    #[derive(Debug, Clone)]
    pub struct HashMap<K, V> { pub slots: [Option<(K, V)>; MODEL_HASH_CAP], pub n: usize }
    impl<K, V> Default for HashMap<K, V> { fn default() -> Self { Self::new() } }
    impl<K, V> HashMap<K, V> {
        pub fn new() -> Self { HashMap { slots: [const { None }; MODEL_HASH_CAP], n: 0 } }
        pub fn len(&self) -> usize { self.n }
        pub fn is_empty(&self) -> bool { self.n == 0 }
        pub fn iter(&self) -> impl Iterator<Item = (&K, &V)> + '_ { self.slots[..self.n].iter().map(|s| { let (k, v) = s.as_ref().unwrap(); (k, v) }) }
        pub fn keys(&self) -> impl Iterator<Item = &K> + '_ { self.iter().map(|(k, _)| k) }
        pub fn values(&self) -> impl Iterator<Item = &V> + '_ { self.iter().map(|(_, v)| v) }
        pub fn clear(&mut self) { let mut i = 0; while i < self.n { self.slots[i] = None; i += 1; } self.n = 0; }
    }
    impl<K: PartialEq, V> HashMap<K, V> {
        fn find(&self, k: &K) -> Option<usize> {
            let mut i = 0;
            while i < self.n { if &self.slots[i].as_ref().unwrap().0 == k { return Some(i); } i += 1; }
            None
        }
        pub fn get(&self, k: &K) -> Option<&V> { self.find(k).map(|i| &self.slots[i].as_ref().unwrap().1) }
        pub fn get_mut(&mut self, k: &K) -> Option<&mut V> { match self.find(k) { Some(i) => Some(&mut self.slots[i].as_mut().unwrap().1), None => None } }
        pub fn contains_key(&self, k: &K) -> bool { self.find(k).is_some() }
        pub fn insert(&mut self, k: K, v: V) -> Option<V> {
            match self.find(&k) {
                Some(i) => Some(std::mem::replace(&mut self.slots[i].as_mut().unwrap().1, v)),
                None => { assert!(self.n < MODEL_HASH_CAP, "model capacity"); self.slots[self.n] = Some((k, v)); self.n += 1; None }
            }
        }
        pub fn remove(&mut self, k: &K) -> Option<V> {
            match self.find(k) {
                Some(i) => {
                    let x = self.slots[i].take().unwrap();
                    let mut j = i + 1;
                    while j < self.n { self.slots[j - 1] = self.slots[j].take(); j += 1; }
                    self.n -= 1;
                    Some(x.1)
                }
                None => None,
            }
        }
    }
    impl<K: PartialEq, V> HashMap<K, V> {
        pub fn with_capacity(_n: usize) -> Self { Self::new() }
        pub fn entry(&mut self, key: K) -> Entry<'_, K, V> {
            match self.find(&key) {
                Some(idx) => Entry::Occupied(OccupiedEntry { map: self, idx }),
                None => Entry::Vacant(VacantEntry { map: self, key }),
            }
        }
    }
    pub enum Entry<'a, K, V> { Occupied(OccupiedEntry<'a, K, V>), Vacant(VacantEntry<'a, K, V>) }
    pub struct OccupiedEntry<'a, K, V> { map: &'a mut HashMap<K, V>, idx: usize }
    pub struct VacantEntry<'a, K, V> { map: &'a mut HashMap<K, V>, key: K }
    impl<'a, K, V> OccupiedEntry<'a, K, V> {
        pub fn get(&self) -> &V { &self.map.slots[self.idx].as_ref().unwrap().1 }
        pub fn get_mut(&mut self) -> &mut V { &mut self.map.slots[self.idx].as_mut().unwrap().1 }
        pub fn into_mut(self) -> &'a mut V { &mut self.map.slots[self.idx].as_mut().unwrap().1 }
        pub fn key(&self) -> &K { &self.map.slots[self.idx].as_ref().unwrap().0 }
        pub fn insert(&mut self, v: V) -> V { std::mem::replace(&mut self.map.slots[self.idx].as_mut().unwrap().1, v) }
    }
    impl<'a, K, V> VacantEntry<'a, K, V> {
        pub fn key(&self) -> &K { &self.key }
        pub fn insert(self, v: V) -> &'a mut V {
            assert!(self.map.n < MODEL_HASH_CAP, "model capacity");
            let i = self.map.n;
            self.map.slots[i] = Some((self.key, v));
            self.map.n += 1;
            &mut self.map.slots[i].as_mut().unwrap().1
        }
    }
    impl<'a, K, V> Entry<'a, K, V> {
        pub fn or_insert(self, d: V) -> &'a mut V { match self { Entry::Occupied(e) => e.into_mut(), Entry::Vacant(e) => e.insert(d) } }
        pub fn or_insert_with<F: FnOnce() -> V>(self, f: F) -> &'a mut V { match self { Entry::Occupied(e) => e.into_mut(), Entry::Vacant(e) => e.insert(f()) } }
    }
    impl<K: PartialEq, V> FromIterator<(K, V)> for HashMap<K, V> {
        fn from_iter<I: IntoIterator<Item = (K, V)>>(it: I) -> Self { let mut m = HashMap::new(); for (k, v) in it { m.insert(k, v); } m }
    }

    #[derive(Debug, Clone)]
    pub struct HashSet<T> { pub slots: [Option<T>; MODEL_HASH_CAP], pub n: usize }
    impl<T> Default for HashSet<T> { fn default() -> Self { Self::new() } }
    impl<T> HashSet<T> {
        pub fn new() -> Self { HashSet { slots: [const { None }; MODEL_HASH_CAP], n: 0 } }
        pub fn len(&self) -> usize { self.n }
        pub fn is_empty(&self) -> bool { self.n == 0 }
        pub fn iter(&self) -> impl Iterator<Item = &T> + '_ { self.slots[..self.n].iter().map(|s| s.as_ref().unwrap()) }
    }
    impl<T: PartialEq> HashSet<T> {
        pub fn contains(&self, t: &T) -> bool { let mut i = 0; while i < self.n { if self.slots[i].as_ref().unwrap() == t { return true; } i += 1; } false }
        pub fn insert(&mut self, t: T) -> bool {
            if self.contains(&t) { return false; }
            assert!(self.n < MODEL_HASH_CAP, "model capacity");
            self.slots[self.n] = Some(t); self.n += 1; true
        }
    }
    impl<T: PartialEq> FromIterator<T> for HashSet<T> {
        fn from_iter<I: IntoIterator<Item = T>>(it: I) -> Self { let mut s = HashSet::new(); for t in it { s.insert(t); } s }
    }
    impl<T: PartialEq> PartialEq for HashSet<T> {
        fn eq(&self, o: &Self) -> bool { if self.n != o.n { return false; } let mut i = 0; while i < self.n { if !o.contains(self.slots[i].as_ref().unwrap()) { return false; } i += 1; } true }
    }
}
pub use model_hash::{HashMap, HashSet};
