// ---- environment of the seglog units (Kani rendering, D4): one shared in-memory disk, std::fs / BufWriter / FileExt,
// crc32fast and zstd replaced by small executable models. ASSUMED CONTRACTS (listed in trusted_base):
//  * the file is a preallocated array of DISK_SIZE bytes shared by the writer's and the reader's handles; positioned reads and
//    writes are atomic and immediately visible (the OS page cache); read_at returns as many bytes as are available;
//  * BufWriter buffers up to its capacity, flushes before overflowing, writes through when the data is at least one capacity,
//    seek flushes first (std's documented behaviour); sync_data has no functional effect in the model (durability = reached the disk array);
//  * crc32 is SOME deterministic function of all bytes fed to the hasher in order (model: rotate-xor rolling hash, linear over GF(2) so that
//    CBMC can relate two evaluations; every single-bit change of an equal-length message changes it); zstd decode(compress(d)) == d, compress may EXPAND by MODEL_ZSTD_OVERHEAD bytes.
/// std::io::Error is a bit-packed tagged pointer with a boxed trait object behind it; symbolic execution of its construction and
/// drop glue dominated CBMC's memory. The model is a plain enum carrying the kind.
pub mod io {
    #[derive(Debug, Clone, Copy, PartialEq, Eq)]
    pub enum ErrorKind { UnexpectedEof, InvalidData, InvalidInput, WriteZero, Other }
    #[derive(Debug)]
    pub struct Error(pub ErrorKind);
    impl Error { pub fn new<E>(k: ErrorKind, _e: E) -> Error { Error(k) } pub fn kind(&self) -> ErrorKind { self.0 } }
    impl From<ErrorKind> for Error { fn from(k: ErrorKind) -> Error { Error(k) } }
    pub type Result<T> = core::result::Result<T, Error>;
}
pub mod env {
    use super::io;
    pub const DISK_SIZE: usize = /*DISK*/ 160;
    pub static mut DISK: [u8; DISK_SIZE] = [0u8; DISK_SIZE];
    /// number of sync_data calls and highest length that had reached the disk when sync_data was last called
    pub static mut SYNCS: u32 = 0;
    /// ordering probe: the harness points this at the writer's published (flushed) offset; every write to the file and every
    /// sync_data records the value published AT THAT MOMENT, so "publish only after flush and fsync" becomes checkable
    pub static mut PUB_PTR: *const std::sync::atomic::AtomicU64 = std::ptr::null();
    pub static mut PUB_AT_LAST_WRITE: u64 = 0;
    pub static mut PUB_AT_LAST_SYNC: u64 = 0;
    fn published_now() -> u64 { unsafe { if PUB_PTR.is_null() { 0 } else { (*PUB_PTR).load(std::sync::atomic::Ordering::SeqCst) } } }

    #[derive(Debug)]
    pub struct File;
    pub struct Metadata;
    impl Metadata { pub fn len(&self) -> u64 { DISK_SIZE as u64 } }
    impl File {
        pub fn metadata(&self) -> io::Result<Metadata> { Ok(Metadata) }
        pub fn try_clone(&self) -> io::Result<File> { Ok(File) }
        pub fn read_exact_at(&self, buf: &mut [u8], offset: u64) -> io::Result<()> {
            let o = offset as usize;
            if offset > DISK_SIZE as u64 || buf.len() > DISK_SIZE - o { return Err(io::Error::from(io::ErrorKind::UnexpectedEof)); }
            unsafe { buf.copy_from_slice(&DISK[o..o + buf.len()]); }
            Ok(())
        }
        pub fn read_at(&self, buf: &mut [u8], offset: u64) -> io::Result<usize> {
            if offset >= DISK_SIZE as u64 { return Ok(0); }
            let o = offset as usize;
            let n = if buf.len() < DISK_SIZE - o { buf.len() } else { DISK_SIZE - o };
            unsafe { buf[..n].copy_from_slice(&DISK[o..o + n]); }
            Ok(n)
        }
        pub fn write_all_at(&self, buf: &[u8], offset: u64) -> io::Result<()> {
            let o = offset as usize;
            if offset > DISK_SIZE as u64 || buf.len() > DISK_SIZE - o { return Err(io::Error::from(io::ErrorKind::WriteZero)); }
            unsafe { DISK[o..o + buf.len()].copy_from_slice(buf); PUB_AT_LAST_WRITE = published_now(); }
            Ok(())
        }
        pub fn sync_data(&self) -> io::Result<()> { unsafe { SYNCS += 1; PUB_AT_LAST_SYNC = published_now(); } Ok(()) }
    }
    pub struct OpenOptions;
    impl OpenOptions {
        pub fn new() -> Self { OpenOptions }
        pub fn read(&mut self, _: bool) -> &mut Self { self }
        pub fn write(&mut self, _: bool) -> &mut Self { self }
        pub fn create_new(&mut self, _: bool) -> &mut Self { self }
        pub fn open<P: AsRef<std::path::Path>>(&self, _p: P) -> io::Result<File> { Ok(File) }
    }
    pub enum SeekFrom { Start(u64) }
    pub const MODEL_BUFWRITER_MAX: usize = 64;
    #[derive(Debug)]
    pub struct BufWriter<W> { pub inner: W, pub buf: [u8; MODEL_BUFWRITER_MAX], pub len: usize, pub cap: usize, pub pos: u64 }
    impl BufWriter<File> {
        pub fn with_capacity(cap: usize, inner: File) -> Self { assert!(cap <= MODEL_BUFWRITER_MAX); BufWriter { inner, buf: [0u8; MODEL_BUFWRITER_MAX], len: 0, cap, pos: 0 } }
        fn flush_buf(&mut self) -> io::Result<()> {
            if self.len > 0 {
                self.inner.write_all_at(&self.buf[..self.len], self.pos)?;
                self.pos += self.len as u64;
                self.len = 0;
            }
            Ok(())
        }
        pub fn seek(&mut self, to: SeekFrom) -> io::Result<u64> { self.flush_buf()?; let SeekFrom::Start(o) = to; self.pos = o; Ok(o) }
        pub fn write_all(&mut self, data: &[u8]) -> io::Result<()> {
            if self.len + data.len() > self.cap { self.flush_buf()?; }
            if data.len() >= self.cap {
                self.inner.write_all_at(data, self.pos)?;
                self.pos += data.len() as u64;
            } else {
                self.buf[self.len..self.len + data.len()].copy_from_slice(data);
                self.len += data.len();
            }
            Ok(())
        }
        pub fn flush(&mut self) -> io::Result<()> { self.flush_buf() }
        pub fn get_ref(&self) -> &File { &self.inner }
        /// number of bytes accepted but not yet handed to the file
        pub fn buffered(&self) -> usize { self.len }
    }
}
pub mod crc32fast {
    pub struct Hasher { h: u32 }
    impl Hasher {
        pub fn new() -> Self { Hasher { h: 0x811C9DC5 } }
        pub fn update(&mut self, bytes: &[u8]) {
            let mut i = 0;
            while i < bytes.len() { self.h = self.h.rotate_left(5) ^ (bytes[i] as u32) ^ 0x9E37_79B9; i += 1; }
        }
        pub fn finalize(self) -> u32 { self.h }
    }
}
pub mod zstd {
    /// model codec: a run of 7..15 equal bytes shrinks to 2 bytes (tag 0x80 | length, byte); anything else EXPANDS by one
    /// tag byte (0x5A + data) — both behaviours of a real compressor (compressible / incompressible input) are present
    pub const MODEL_ZSTD_OVERHEAD: usize = 1;
    pub mod bulk {
        pub fn compress(data: &[u8], _level: i32) -> super::super::io::Result<Vec<u8>> {
            let mut run = data.len() >= 7 && data.len() < 16;
            let mut i = 1;
            while i < data.len() { if data[i] != data[0] { run = false; } i += 1; }
            let mut v = Vec::with_capacity(data.len() + 1);
            if run { v.push(0x80 | data.len() as u8); v.push(data[0]); } else { v.push(0x5A); v.extend_from_slice(data); }
            Ok(v)
        }
    }
    pub mod stream {
        pub fn copy_decode(src: &[u8], dst: &mut Vec<u8>) -> super::super::io::Result<()> {
            if src.len() == 2 && src[0] & 0x80 != 0 {
                let n = (src[0] & 0x7F) as usize;
                if n < 7 || n >= 16 { return Err(super::super::io::Error::from(super::super::io::ErrorKind::InvalidData)); }
                let mut i = 0; while i < n { dst.push(src[1]); i += 1; } return Ok(());
            }
            if src.is_empty() || src[0] != 0x5A { return Err(super::super::io::Error::from(super::super::io::ErrorKind::InvalidData)); }
            dst.extend_from_slice(&src[1..]);
            Ok(())
        }
    }
}
