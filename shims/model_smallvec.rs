// ---- shim (Kani rendering, D4): smallvec::SmallVec replaced by a fixed-capacity array model ----
// ASSUMED CONTRACT: SmallVec<[T; N]> is a growable sequence. The model holds at most MODEL_SV_CAP elements
// (exceeding it fails a `model capacity` assertion). Measured necessity: the real SmallVec<[EventRecord; 4]> inside a Box
// ran CBMC out of memory (DESIGN §11).
pub mod model_smallvec {
    pub const MODEL_SV_CAP: usize = /*CAP*/ 4;
    pub trait Array { type Item; }
    impl<T, const N: usize> Array for [T; N] { type Item = T; }
    #[derive(Debug, Clone, PartialEq, Eq)]
    pub struct SmallVec<A: Array> { pub slots: [Option<A::Item>; MODEL_SV_CAP], pub n: usize }
    impl<A: Array> SmallVec<A> {
        pub fn new() -> Self { SmallVec { slots: [const { None }; MODEL_SV_CAP], n: 0 } }
        pub fn len(&self) -> usize { self.n }
        pub fn is_empty(&self) -> bool { self.n == 0 }
        pub fn push(&mut self, v: A::Item) { assert!(self.n < MODEL_SV_CAP, "model capacity"); self.slots[self.n] = Some(v); self.n += 1; }
        pub fn pop(&mut self) -> Option<A::Item> { if self.n == 0 { None } else { self.n -= 1; self.slots[self.n].take() } }
        pub fn clear(&mut self) { while self.n > 0 { self.n -= 1; self.slots[self.n] = None; } }
        pub fn first(&self) -> Option<&A::Item> { if self.n == 0 { None } else { self.slots[0].as_ref() } }
        pub fn last(&self) -> Option<&A::Item> { if self.n == 0 { None } else { self.slots[self.n - 1].as_ref() } }
        pub fn iter(&self) -> impl Iterator<Item = &A::Item> + '_ { self.slots[..self.n].iter().map(|s| s.as_ref().unwrap()) }
        pub fn from_one(v: A::Item) -> Self { let mut s = Self::new(); s.push(v); s }
    }
    impl<A: Array> Default for SmallVec<A> { fn default() -> Self { Self::new() } }
    impl<A: Array> std::ops::Index<usize> for SmallVec<A> {
        type Output = A::Item;
        fn index(&self, i: usize) -> &A::Item { assert!(i < self.n); self.slots[i].as_ref().unwrap() }
    }
    impl<A: Array> FromIterator<A::Item> for SmallVec<A> {
        fn from_iter<I: IntoIterator<Item = A::Item>>(it: I) -> Self { let mut s = Self::new(); for v in it { s.push(v); } s }
    }
}
pub use model_smallvec::SmallVec;
#[macro_export]
macro_rules! smallvec {
    () => { $crate::model_smallvec::SmallVec::new() };
    ($x:expr) => { $crate::model_smallvec::SmallVec::from_one($x) };
}
