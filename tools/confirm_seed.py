#!/usr/bin/env python3
"""Confirms a seeded change in a scratch worktree and, when confirmed, files it under /verif/seeded/<id>/.

usage: confirm_seed.py <seed-id> <property> <worktree> <outdir> <demo-file> <demo-dest-relative> <demo-cmd> <tests-cmd> [<needs>]

Steps (all in the scratch worktree, never in /repo):
  clean tree + demo      -> demo must PASS
  patch + existing tests -> must PASS
  patch + demo           -> demo must FAIL
"""
import json
import os
import shutil
import subprocess
import sys
import time

sid, prop, wt, outdir, demo, dest, demo_cmd, tests_cmd = sys.argv[1:9]
needs = sys.argv[9] if len(sys.argv) > 9 else ""
env = dict(os.environ, CARGO_TARGET_DIR=os.path.join(wt, "target"), CARGO_NET_OFFLINE="true")


def sh(cmd):
    p = subprocess.run(cmd, shell=True, cwd=wt, env=env, capture_output=True, text=True)
    return p.returncode, (p.stdout + p.stderr)[-1500:]


def clean():
    sh("git checkout -- . && git clean -fdq -e out -e target")


log = {}
clean()
is_diff = demo.endswith(".diff")
def put_demo():
    if is_diff:
        return sh("git apply %s" % os.path.join(outdir, demo))
    os.makedirs(os.path.dirname(os.path.join(wt, dest)), exist_ok=True)
    shutil.copy(os.path.join(outdir, demo), os.path.join(wt, dest))
    return 0, ""

put_demo()
rc, out = sh(demo_cmd)
log["demo_on_clean_tree"] = {"rc": rc, "tail": out[-600:]}
clean()
rc_a, out_a = sh("git apply %s" % os.path.join(outdir, "patch.diff"))
log["apply"] = rc_a
rc_t, out_t = sh(tests_cmd)
log["existing_tests_with_patch"] = {"rc": rc_t, "tail": out_t[-600:]}
put_demo()
rc_d, out_d = sh(demo_cmd)
log["demo_with_patch"] = {"rc": rc_d, "tail": out_d[-800:]}
clean()
ok = log["demo_on_clean_tree"]["rc"] == 0 and rc_a == 0 and rc_t == 0 and rc_d != 0
print(sid, "CONFIRMED" if ok else "NOT CONFIRMED", json.dumps({k: (v["rc"] if isinstance(v, dict) else v) for k, v in log.items()}))
if ok:
    d = os.path.join("/verif/seeded", sid)
    os.makedirs(d, exist_ok=True)
    shutil.copy(os.path.join(outdir, "patch.diff"), os.path.join(d, "patch.diff"))
    shutil.copy(os.path.join(outdir, demo), os.path.join(d, os.path.basename(demo)))
    notes = {}
    try:
        notes = json.load(open(os.path.join(outdir, "notes.json")))
    except Exception:
        pass
    meta = {"id": sid, "property": prop, "what_breaks": notes.get("what_breaks", ""), "needs_to_manifest": notes.get("needs_to_manifest", needs),
            "demo": {"file": os.path.basename(demo), "place_at": dest, "cmd": demo_cmd},
            "confirmed": {"when": time.strftime("%Y-%m-%d %H:%M"), "existing_tests_cmd": tests_cmd, "existing_tests_with_patch": "pass",
                          "demo_on_clean_tree": "pass", "demo_with_patch": "fail", "demo_failure_tail": log["demo_with_patch"]["tail"][-400:]},
            "detected_by": None}
    json.dump(meta, open(os.path.join(d, "meta.json"), "w"), indent=1)
