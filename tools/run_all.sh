#!/bin/sh
# Runs every registered quick check on the UNCHANGED tree (two lanes; properties that share a unit stay in one lane so that two
# runs never render the same crate at once) and leaves the evidence files in /verif/evidence. usage: tools/run_all.sh [logdir]
LOG=${1:-/tmp/run_all}
mkdir -p "$LOG"
cd /verif
if [ -n "$(git -C /repo status --porcelain --untracked-files=no)" ]; then echo "refusing: /repo has local changes"; exit 2; fi
lane() { for p in "$@"; do ./check "$p" --tier quick > "$LOG/$p.log" 2>&1; echo "$p exit $?"; tail -1 "$LOG/$p.log"; done; }
lane C01 C17 C18 C19 C05 C02 C04 C16 C25 &
lane C03 C07 C08 C09 C12 C13 C14 C22 C23 C24 C26 &
wait
