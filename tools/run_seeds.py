#!/usr/bin/env python3
"""Applies every confirmed seeded change (/verif/seeded/<id>/patch.diff) to /repo in turn, runs the quick check of its
property, records the outcome in meta.json (detected_by) and undoes the change. usage: run_seeds.py [id-prefix ...]"""
import json, os, subprocess, sys, time
SEEDED = "/verif/seeded"
sel = sys.argv[1:]
for sid in sorted(os.listdir(SEEDED)):
    d = os.path.join(SEEDED, sid)
    if not os.path.exists(os.path.join(d, "meta.json")):
        continue
    if sel and not any(sid.startswith(s) for s in sel):
        continue
    meta = json.load(open(os.path.join(d, "meta.json")))
    st = subprocess.run(["git", "-C", "/repo", "status", "--porcelain", "--untracked-files=no"], capture_output=True, text=True).stdout.strip()
    if st:
        print("refusing: /repo has local changes"); sys.exit(2)
    a = subprocess.run(["git", "-C", "/repo", "apply", os.path.join(d, "patch.diff")], capture_output=True, text=True)
    if a.returncode != 0:
        meta["detected_by"] = {"status": "patch no longer applies to the current tree (superseded by a fix: commit)", "when": time.strftime("%Y-%m-%d %H:%M")}
        json.dump(meta, open(os.path.join(d, "meta.json"), "w"), indent=1)
        print(sid, "patch does not apply")
        continue
    t0 = time.time()
    # the evidence file of the property must keep describing the UNCHANGED tree: save it and put it back afterwards
    evp = os.path.join("/verif/evidence", meta["property"] + ".json")
    ev_saved = open(evp).read() if os.path.exists(evp) else None
    try:
        p = subprocess.run(["timeout", "2400", "/verif/check", meta["property"], "--tier", "quick"], capture_output=True, text=True, cwd="/verif")
        out, rc = p.stdout, p.returncode
    finally:
        subprocess.run(["git", "-C", "/repo", "checkout", "--", "."])
        if ev_saved is not None:
            open(evp, "w").write(ev_saved)
    viol = [l for l in out.splitlines() if l.startswith("VIOLATION") or l.strip().startswith("obligation:")]
    meta["detected_by"] = {"check": "./check %s --tier quick" % meta["property"], "exit": rc, "lines": viol[:6] or out.splitlines()[-3:], "wall_s": round(time.time() - t0, 1),
                           "when": time.strftime("%Y-%m-%d %H:%M")}
    json.dump(meta, open(os.path.join(d, "meta.json"), "w"), indent=1)
    print(sid, "exit", rc, "|".join(viol[:2])[:200])
