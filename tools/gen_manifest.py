#!/usr/bin/env python3
"""Regenerates /verif/MANIFEST.json from the table below (kept here so that claims, notes and the
not_applicable list change in one place)."""
import json
import os

VERIF = os.path.dirname(os.path.dirname(os.path.abspath(__file__)))

CLAIMS = {
    "C01": dict(
        category="other", design_ref="§5 U02/U03",
        technique="Kani/CBMC inductive-step harnesses on seglog Writer::{append,sync,set_len} and on the writer thread's WriterSet::{sync,rollover}, all extracted verbatim, over an arbitrary state satisfying the representation invariant (cursor alignment; published watermark <= fsynced offset of the live segment), against an in-memory disk / BufWriter / watch-channel model; WriterSet::handle_write under contract (units/U23)",
        text="Bounded stand-in (scaled buffer constants, tiny records, ALL byte contents and ALL writer positions symbolic): from any state with file cursor + buffered bytes == write offset, append writes exactly length/checksum/header/data at the reported offset and publishes nothing; sync lands the buffered bytes at the cursor, calls sync_data, then publishes flushed == write offset; set_len lowers both offsets, writes the marker, keeps bytes below AND re-aligns the cursor (so a rejected/truncated append cannot displace later acknowledged ones). By induction the invariant holds after every history of these calls.",
        note="PARTIAL: the seglog layer plus the watermark invariant of the writer thread (units/U12w: WriterSet::sync fsyncs, publishes pending index entries, then the watermark; WriterSet::rollover releases every appender of the sealed segment and starts the new segment with watermark <= fsynced - this harness found the stale-watermark defect fixed in cc7f18a). NOT decided: the async hand-off in WriterThreadPool::append_events (released when watermark >= write offset: read, not proved), reads through the async reader pool, real kernel fsync semantics (sync_data is a model no-op counted for ordering only), reopen. Multi-step history harnesses ran CBMC out of memory and are not registered."),
    "C17": dict(
        category="other", design_ref="§5 U01/U02",
        technique="Kani/CBMC on seglog parse_record extracted verbatim over every bit pattern of a 20-byte buffer (CRC modelled as a GF(2)-linear rolling hash) + one checksum-gate harness per decoding path of Reader::read_record (optimistic / fallback / allocated buffer, sequential read-ahead; units/U02r) + the writer's append-layout inductive step + Verus proofs of Writer::open's recovery scan and of the read-ahead cache (units/U03); thorough: read_record(Random) == parse_record on arbitrary 40-byte images",
        text="Bounded stand-in: parse_record never panics on any bytes; an Ok result satisfies the CRC gate over exactly the bytes returned and has the documented layout; every Err kind occurs only for its documented reason; a record whose checksum matches is never rejected; Writer::append lays out exactly length, checksum, header, data — so parse_record returns what append wrote (round trip by composition).",
        note="PARTIAL and bounded (buffer 20 bytes, H = 1, scaled constants). ASSUMED: CRC-32 detects single-bit flips and bursts <= 32 bits in a message of unchanged length (the model hash has that property; a flip in the length field is detected with probability 1-2^-32 only); zstd round trip. Writer::open's recovery scan (`a reopened writer resumes right after the last intact record`) and the read-ahead cache are proved in Verus (units/U03, counted in obligations). Reader paths: each decoding path returns Ok IFF the stored checksum matches the length field, header and data it returns, and returns the bytes at that offset (bounded: one record, concrete payload length per path, all other bytes symbolic); the sequential path's relational harness against parse_record still exhausts CBMC's memory. The environment replaces std::io::Error by a plain enum."),
    "C18": dict(
        category="other", design_ref="§5 U02",
        technique="Verus unbounded proof of the provenance contract on ReadAheadBuf::{read,fill,overlaps,invalidate} (real 64 KiB / 4 KiB constants) + Kani/CBMC inductive-step harnesses on Writer::sync (flush, then sync_data, then publish) and Writer::set_len over arbitrary writer states; replay on real files + Kani harness: a long-lived Reader after the shared flushed offset was lowered (units/U02r)",
        text="READER half (Verus, unbounded): inv = the read-ahead cache holds only bytes below the flushed offset loaded when it was filled, equal to the file; read() serves exactly file.disk()[offset..offset+length] for every request below the flushed offset (hit or refill) and re-establishes inv; fill() covers the request window; overlaps() is exact interval overlap. WRITER half (Kani, bounded): the flushed offset is only ever advanced to the write offset after the buffered bytes reached the file and sync_data was called; truncation lowers it and keeps bytes below intact; appends publish nothing. Hence no reader can be handed an offset whose bytes are not in the file.",
        note="category `other` because the writer half is a bounded stand-in; the reader-cache obligations are discharged by Verus (counted in obligations/discharged). ASSUMED: FileExt::read_at returns bytes of the file (per-call snapshot); bytes below the flushed offset do not change between calls (writer contract) — so Reader::read_record_sequential / Iter see exactly the flushed bytes through the cache; their record decoding is C17. After an I/O error inside fill the invariant is not claimed (fill does not reset valid_len: candidate, DESIGN A.5). Known finding: a long-lived reader's cache is not invalidated when already-flushed records are truncated (set_len below the flushed offset) — not reachable from sierradb, which only truncates unflushed tails."),
    "C19": dict(
        category="other", design_ref="§5 U02, A.3 U19",
        technique="Kani/CBMC on (a) Writer::append / prepare_data extracted verbatim (inductive step over arbitrary writer states; refusal contract with compression on/off, compressible and incompressible data) and (b) a SLICE (R5) of Worker::handle_append_events lifted verbatim: the size estimate, the EventsExceedSegmentSize rejection and the rollover decision",
        text="Bounded stand-in, two contracts that compose: (a) seglog: an append is refused for lack of space ONLY IF write offset + the UNCOMPRESSED record size exceeds the segment size, a stored record is never larger than its uncompressed form, a refused append changes nothing; (b) writer thread: a transaction is rejected with EventsExceedSegmentSize IFF its uncompressed stored size does not fit an empty segment, otherwise the segment is rolled over (once, before the write) IFF it does not fit the live segment's free space - so the write always starts where the uncompressed records fit, and by (a) is never refused: no SegmentFull, hence no retry that fails forever.",
        note="`stored size` is read as the UNCOMPRESSED record size (the size the database budgets for): a compressible transaction larger than a segment is rejected by design. Contract (a) found the defect fixed in 86f6510 (incompressible data grew under compression past the estimate). ASSUMED: the record format sizes (bincode encoding of RawEvent / RawCommit: external crate) restated in the U19 harness; the real zstd is replaced by a model codec that shrinks runs and expands everything else. Bounded: <= 2 events per transaction (lengths symbolic), 7-byte data in (a)."),
    "C02": dict(
        category="other", design_ref="§4 C25 (U04), §5 U12",
        technique="Verus proof + complete Kani harnesses on validate_partition_sequence / ExpectedVersion algebra (U04) and bounded Kani harnesses on WriterSet::validate_event_versions extracted verbatim (model HashMap, index lookup behind a contract) against the one spec `accepts`; the index lookup that feeds it (read_stream_latest_version) is itself under contract in units/U20; WriterSet::handle_write extracted verbatim under contract (units/U23: sequence / version assignment, bookkeeping unchanged on rejection)",
        text="Partition-sequence half (proof, all u64): the store accepts exactly when `accepts(expected, current)`, the rejection reports the actual state. Stream half (bounded: transactions of <= 2 events over <= 2 streams, <= 1 pending append, versions/expectations full-range, arbitrary indexed state): validate_event_versions returns Ok iff every event's expectation holds against the stream state EXTENDED by the earlier events of the same transaction and every touched stream carries the transaction's partition key; the returned versions are the versions each event saw; rejections name the right reason. handle_write (bounded: <= 2 events, a write failure at any record or at the flush): a rejected write leaves pending index entries, next sequences and the unflushed count exactly as before; an accepted one gives the events consecutive partition sequences from the partition's next sequence and the successor of each validated stream version, queues one index entry per event, advances the next sequence by n and reports first / last sequence and each stream's LAST version.",
        note="category `other`: the stream half is a bounded stand-in. handle_write found the defect fixed in 9dbfeb5 (a failed flush left the rejected transaction's index entries pending). NOT decided: agreement of pending / open-index / closed-index lookups across reopen (read_stream_latest_version is a callee behind an assumed contract), the latest-version / latest-sequence queries."),
    "C03": dict(
        category="proof", design_ref="§6 U15",
        technique="Verus contracts on SegmentIter::{new,is_finished,remaining_offsets,skip} extracted verbatim: forward scans visit offsets[idx..], reverse scans visit offsets[..=idx] backwards; Kani/CBMC complete harnesses on PartitionIterConfig / StreamIterConfig::try_get_from_reader_set (which sealed segment a scan starts in and at which index; units/U22); replay through the real Database (scenario driver DB)",
        text="Unbounded proof of the index arithmetic that positions a forward or reverse scan inside one segment's offset list: for every offset list, index and direction the iterator's remaining sequence is exactly the slice the property prescribes (reverse from the end when idx >= len); skip saturates; is_finished iff nothing remains.",
        note="PARTIAL: SegmentIter's synchronous positioning (Verus) and the sealed-segment selection (Kani, complete, closed indexes behind a lookup contract) are under contract. NOT decided: BucketIter::new_inner / next_batch / rollover hand-over between segments (async, closures into the reader pool), try_get_from_live_indexes (async lock), the MPHF/bloom index lookups (external crates), the stream filter. Callers clamp the index (precondition). The database-level replay driver exercises those paths only as a counterexample search."),
    "C04": dict(
        category="other", design_ref="§6 U13",
        technique="Kani/CBMC on SegmentBlock::read_committed_events and BucketSegmentReader::read_committed_events (polonius) extracted verbatim; read_record behind a contract over an abstract well-formed log; the writer side (commit record appended after the events, exactly once, iff the transaction is not a flagged single event) in WriterSet::handle_write (units/U23)",
        text="Bounded stand-in, labelled: from every record boundary of every well-formed log (two transactions, the second possibly absent or cut after 1 or 2 events by a crash) the readers return a single-event transaction alone, a multi-event transaction only when its commit record is in the log, with every sibling event between the offset and the commit and none of another transaction, and nothing for a transaction whose commit is missing.",
        note="Bounded (log <= 6 records). Log well-formedness is a precondition taken from the writer. SmallVec/Uuid are models; record decoding (bincode, seglog) is behind read_record's contract. NOT decided: concurrent readers while a transaction is being written (C18's flushed-offset contract), the stream filter afterwards."),
    "C09": dict(
        category="other", design_ref="§7 U16",
        technique="Kani/CBMC on SubscriptionMatcher::{has_seen,update_state,update_from_sequences} extracted verbatim (model HashMap/HashSet): per-key delivery floor with whole-view frame; Kani/CBMC complete harness on Subscription::send_record extracted verbatim (async erased): the acknowledgement window (units/U25)",
        text="Bounded stand-in (collections <= 2 entries; single-partition / single-stream matchers complete): has_seen(r) iff r does not match or lies below the floor of its key; update_state raises exactly that key's floor to pos+1 and leaves every other key's floor unchanged; hence a delivered event is never delivered again and no other stream/partition is re-delivered or skipped. send_record (complete: any cursor, window, acknowledgement history): a record is sent only when the records outstanding after the send fit the window, with consecutive cursors; nothing is sent once a channel is closed.",
        note="PARTIAL: only the matcher's sequential algebra. NOT decided: history loops (async), history/live hand-over, broadcast lag and the race between the history replay and the broadcast receiver (a seeded change there, C09-n1, is NOT detected), confirmed-only delivery (watermark gating is C07). Known finding: Streams subscriptions started with AllStreams(v) forget v for the other streams."),
    "C16": dict(
        category="other", design_ref="§7 U12",
        technique="Kani/CBMC on bucket_id_to_thread_id extracted verbatim: total on listed buckets, thread id in range, deterministic (router and owner filter call the same function), balanced",
        text="Bounded stand-in (<= 6 buckets, ids full-range u16, any thread count): every stored bucket is routed to exactly one existing writer thread, the same one Worker::new assigns it to, so appends to one bucket are executed by one thread one at a time; the per-request accept/reject decision is the sequential contract of C25/C02 (validate_partition_sequence, expected-version algebra).",
        note="PARTIAL: the serialisation itself is Rust ownership (&mut WriterSet owned by one thread; trusted: rustc) plus the sequential run loop; channel and scheduler behaviour are not modelled. WriterSet::validate_event_versions / handle_write are not under contract in this build."),
    "C05": dict(
        category="other", design_ref="§5 U03 (open)",
        technique="Verus unbounded proof on seglog Writer::open (the recovery scan) extracted verbatim, with the Reader behind its contract; replay on real files + Kani/CBMC bounded harnesses on WriterSet::{next_partition_sequence, read_partition_latest_sequence, read_stream_latest_version} extracted verbatim (units/U20); Kani/CBMC bounded harness on Open{Event,Partition,Stream}Index::hydrate extracted verbatim (units/U24)",
        text="For EVERY file content (every truncation length, every corruption the reader's CRC gate rejects, a torn tail, a truncation marker) a reopened writer resumes exactly at the end of the maximal run of intact records from the start offset; the flushed offset and the file cursor are at that position and nothing is buffered; reopening fails only on an I/O error, never on corruption. This is the function-level half of `recovers to a consistent prefix and continues without gap or reuse` for the segment log. Writer-thread half (Kani, bounded: <= 3 sealed segments): after a (re)open the next append to a partition continues at the cached sequence, else one past the MAXIMUM over the live index and ALL sealed segments, else 0; a stream's latest version / partition key come from its newest holder - no gap, no reuse. Index rebuild (Kani, bounded: <= 4 records): after a reopen each of the three live indexes holds exactly the events of committed transactions - nothing of a last transaction whose commit record never reached the file.",
        note="PARTIAL: the seglog recovery scan (proved) and the sequence / version continuity lookups of the writer thread (bounded, index files as lookup tables under the assumed monotonicity invariant). The Reader is assumed to satisfy its contract (read_record returns the intact record at an offset or the documented stop kind; parse_record's gate is checked under C17). hydrate found the defect fixed in d293857 (events of a transaction without commit record were indexed). NOT decided: Worker::new, DatabaseBuilder::open, rollover index files (C06), partition-sequence / stream-version continuation after reopen at database level."),
    "C07": dict(
        category="other", design_ref="§7 U17",
        technique="Kani/CBMC on SLICES (R5/R4) of the ClusterActor read handlers lifted verbatim: handle_partition_read_locally, handle_stream_read_locally, handle_local_read (whole body), the GetStreamVersion task and the GetPartitionSequence answer, against a model database iterator and a recording reply sink; PartitionConfirmationState::update_confirmation (the watermark is the longest quorum-confirmed prefix) and AtomicWatermark::can_read (units/U09)",
        text="Bounded stand-in (the model iterator yields <= 3 events in <= 2 batches / transaction groups; start / end / count / watermark full-range): ReadPartition and ReadStream send exactly one reply whose events are gapless from the start, at most `count`, not beyond the requested end, and ALL strictly below the confirmed watermark; ReadEvent reveals an event only if it carries a quorum count AND lies below the watermark (complete); GetPartitionSequence answers watermark - 1 / none (complete); GetStreamVersion answers the highest version among the events below the watermark; update_confirmation keeps the watermark equal to the longest reported-quorum prefix (<= 2 pending versions). can_read(s) == (s < watermark) for all values.",
        note="PARTIAL: slices with async erased (valid for per-call functional postconditions, not for interleavings); the database iterator is assumed to satisfy C03's contract (for the reverse scan: checked against a real single-node cluster by the replay driver U17). NOT decided: forwarding between nodes, has_more accuracy, the subscription path (C09)."),
    "C08": dict(
        category="other", design_ref="§7 U09",
        technique="Kani/CBMC on update_confirmation extracted verbatim (model BTreeMap): per-call contract over arbitrary state with the maximal-watermark invariant assumed before and proved after (inductive step); complete harness for the atomic cell",
        text="Bounded stand-in, labelled: update_confirmation is checked for ALL watermarks, versions, counts and replication factors but with at most 2 pending versions before the call; the contract is the property's own: never decreases, never exceeds the longest reported-quorum prefix, equals it (maximality is the inductive invariant), whole-map frame, no panic. AtomicWatermark get/advance/can_read: complete.",
        note="Bounded (pending versions <= 2; thorough adds a 3-delivery any-order history). Not decided: persistence/restart (async tokio fs, crash points of temp-file+rename) — only `a loaded watermark never decreases afterwards` follows from the per-call contract. Model BTreeMap assumed."),
    "C12": dict(
        category="other", design_ref="§7 U10",
        technique="Verus unbounded proof (generic key / value) of whole-map contracts on OrderedQueue::{pop,progress_to,next} extracted verbatim + Kani/CBMC on OrderedQueue::{insert,pop,progress_to,next,new} against the model BTreeMap: per-call contracts with whole-map frames over arbitrary queue states (insert uses the Entry API, which Verus rejects); Kani/CBMC bounded harnesses on PartitionReplicatorActor::{detect_and_handle_gaps, pop_next_buffered_write} extracted verbatim over the real OrderedQueue (units/U26)",
        text="pop hands over exactly the write buffered at the next expected sequence and removes nothing else, progress_to only moves `next`, next() reads it: proved for every map and every key type obeying the order laws (Verus, unbounded). Bounded stand-in for insert (<= 3 buffered entries, keys / next full-range): stale / conflicting writes rejected without changing the buffer, duplicates merged once, eviction only of the largest key in favour of a smaller one and reported. Replica side (bounded, <= 3 buffered writes): only the live write buffered AT the next expected sequence is handed over, an expired one is dropped and nothing else leaves the buffer; leading expired writes are garbage-collected; a gap below the oldest buffered write triggers a catch-up for exactly [next, oldest - 1], once, only while the breaker permits and none is in flight.",
        note="Bounded (entries <= 3, limit <= 3). Not decided: liveness (`eventually answered`), actor mailbox schedules, buffer_write's reply routing and the async write / catch-up exchange in replicate.rs. Known finding: progress_to leaves entries below next."),
    "C13": dict(
        category="other", design_ref="§4 C13 / U08",
        technique="Kani/CBMC executing AppConfig::{assigned_buckets,assigned_partitions,node_count} and TopologyManager::calculate_assigned_partitions (both extracted verbatim, model HashSet) on concrete validated configurations, every node index; the topology side is proved for all sizes under C14",
        text="Bounded stand-in (exhaustive over node index for 19 listed small configurations: N <= 3, buckets <= 6, partitions <= 6): the buckets a node opens are exactly the buckets whose replica set (b % N + k, k < rf) contains it, and the partitions it stores are exactly those the topology assigns to it. Holds for single-node, full-replication and B <= N configurations; the partial-replication family is the open known finding.",
        note="Bounded to the listed configurations (a symbolic node count / index does not come back from CBMC: 64-bit modulo). Explicit bucket.ids / partition.ids overrides are out of scope (they bypass the computation). Known finding KF-C13-contiguous-vs-modulo: contiguous ranges vs. bucket % N disagree whenever rf < N and B > N."),
    "C14": dict(
        category="proof", design_ref="§4 C13/C14, U07",
        technique="Verus unbounded proof on calculate_partition_replicas (exact: known members of replica_nodes(b,N,rf) in offset order; distinctness/length lemmas over the spec) and on the bucket-selection loops of calculate_assigned_partitions, both extracted verbatim + Kani/CBMC bounded harness on get_available_replicas (model map / bounded-sequence ArrayVec): exactly the active replicas ordered by (alive_since, replica key), whatever the node-local heartbeat times (units/U07b)",
        text="For every cluster size (incl. N >= 256), bucket count, partition id and rf <= 12: the replica list is exactly the known nodes among (b%N + k)%N, k < min(rf,N), in offset order; with all nodes known it has exactly min(rf,N) pairwise distinct entries (lemma: k -> (a+k)%N injective); a node's bucket set is exactly the buckets whose replica set contains it, so `owns iff in replica set` holds by construction. Determinism across nodes follows from the result being a function of (arguments, known-node map).",
        note="Assumed: vstd HashMap/HashSet specs; ArrayVec shim; rf <= 12 (ArrayVec capacity; not enforced by config validation); the filter/collect tail of calculate_assigned_partitions (std, no Verus spec: the proved fact is the bucket set before the tail). get_available_replicas is bounded (<= 2 replicas quick, <= 3 thorough; std sort_by trusted to be a stable sort). NOT decided: recalculate_partition_assignments over real HashMap iteration order, libp2p event delivery. Kani is infeasible here (64-bit symbolic modulo; measured > 20 min)."),
    "C22": dict(
        category="other", design_ref="§7 U18",
        technique="Kani/CBMC on SLICES (R5/R4) of the EMAPPEND and EAPPEND request handlers lifted verbatim (units/U18, U21), on encode_event / the EAPPEND response frame and on PartitionSelector / PartitionRange (EPSCAN / EPSEQ / EPSUB partition selection) extracted verbatim, against recorder models of the cluster and of RESP frames; the cluster read handlers the RESP reads call are under contract in units/U17",
        text="Bounded stand-in with complete parts. EMAPPEND (<= 3 events over <= 2 streams, versions full-range): one response entry per event in request order, the i-th event of a stream reports last - (k - 1 - i), no panic. EAPPEND (COMPLETE: every request, every u64 millisecond timestamp, any partition count, any append result): never panics; a millisecond timestamp that does not fit nanoseconds is an error and nothing is appended; otherwise exactly one single-event transaction with timestamp ms * 1_000_000, partition = hash(partition key) % partitions, and the response reports the append result's sequence / version and what was appended. encode_event and the EAPPEND frame report every field under its own key, numerically unchanged, timestamps in milliseconds (bounded: timestamp = 8 boundary bases + 16 symbolic bits). A numeric partition id is used UNCHANGED (COMPLETE); partition ranges expand to exactly the ids they denote (<= 4 partitions).",
        note="PARTIAL: response / request construction of EAPPEND and EMAPPEND, the event frame, the partition selection of EPSCAN / EPSEQ / EPSUB. NOT decided: the argument parsers (combine closures, C21), EGET / ESCAN / EPSCAN handlers' has_more flags and range handling beyond the cluster read handlers of units/U17 (C07), subscription commands, error replies instead of crashed connections in the request loop Conn::run, the model-equivalence of whole command histories."),
    "C23": dict(
        category="proof", design_ref="§4 C23 / U05",
        technique="Kani/CBMC complete harnesses (loop-free, full-domain symbolic ids/hashes/clock/RNG) on id.rs extracted verbatim; Verus contracts on the two bucket helpers; bounded Kani harness for Transaction::new",
        text="Contract-based proof on the real text of sierradb::id (extracted on every run): for all 2^16 hashes and all time/random bits the generated id yields back the hash and validates only for it; for all 2^128 ids the flag functions change exactly one bit; the bucket helpers satisfy exact arithmetic postconditions (Verus). Complete because every harness is loop-free over unconstrained inputs.",
        note="Assumed: uuid/smallvec crates as compiled by Kani; wall clock and RNG replaced by arbitrary values (R1). Transaction::new is bounded in the number of events (<= 4) and reported as bounded. Known finding: extract_event_id_bucket disagrees with the database's routing when bucket count does not divide partition count."),
    "C24": dict(
        category="proof", design_ref="§4 C24 / U06",
        technique="Verus unbounded proof (loop invariant + number-theory lemma library) of exact result == spec walk on the extracted function; Kani/CBMC complete harnesses over all u16 x u16 x u8 as arbiter and counterexample source",
        text="distribute_partition's real body is verified against `r@ == spec_dist(h,n,rf)` plus the property's own clauses (length min(rf,n,12), ids < n, first = h % n, pairwise distinct); prefix follows from the exact result. Holds for the entire input space with no bound; overflow/bounds/capacity obligations are implicit.",
        note="Assumed: ArrayVec shim (bounded sequence) in Verus, real arrayvec in Kani; cmp::min spec. The length harness (5 min) and prefix harness run in the thorough tier; quick relies on the Verus proof plus the bounds/distinctness harnesses."),
    "C25": dict(
        category="proof", design_ref="§4 C25 / U04",
        technique="Verus contracts on ExpectedVersion/CurrentVersion/VersionGap methods and validate_partition_sequence against one spec function `accepts` (caller lemmas checked against callee contracts) + complete Kani/CBMC harnesses over all u64 values for the same contract + Kani on the real std for the keyword Display/FromStr",
        text="Every method of the expected-version algebra and the store's own partition-sequence check are extracted verbatim and proved against the single spec `accepts(e,c)`: gap_from reports the saturating signed distance and is None iff accepts; is_satisfied_by == accepts == (store check is Ok); from/into_next_version mutually inverse incl. u64::MAX; no overflow anywhere (all u64 values).",
        note="Display/FromStr: the keyword clause is decided by Kani on the real std (bounded: the three keywords exhaustively, sample digit strings); Exact(v) goes through u64's own Display/FromStr, assumed mutually inverse (std). CurrentVersion::next assumes the version is below u64::MAX (environment). Derives assumed structural. The Kani harnesses carry the same contract and decide the unit when the Verus front end rejects a changed text."),
    "C26": dict(
        category="proof", design_ref="§4 C26 / U11",
        technique="Verus on the extracted breaker with havocked atomics (every load/fetch_add arbitrary => all interleavings) for panic-freedom; Kani complete per-method harnesses over arbitrary state with real std atomics for the sequential counting contracts",
        text="Panic-freedom of should_allow_request/record_success/record_failure/current_state under ANY interleaving (atomic loads return arbitrary values); per-call contracts for one thread over arbitrary breaker state and clock: opens exactly when failure_count+1 >= threshold, half-open admits iff calls < max, queries are total.",
        note="The two counting clauses are proved sequentially only (per call + two bounded episode harnesses); their concurrent versions are NOT decided. Assumed: counters never sit at u32::MAX; estimated_recovery_time's panic-freedom is proved in the Kani (sequential, arbitrary state) rendering only."),
}

NOT_APPLICABLE = {
    "C06": "crash between sealing a segment and the background index flush: recovery of a missing/short index is not a function of the code base (DatabaseBuilder::open propagates the error), runs across a rayon pool; no contract on an existing function expresses it (DESIGN §9)",
    "C10": "cross-node agreement under message loss/reordering/crash schedules of async actors: protocol-level inductive invariant, out of reach of per-function contracts (Verus has no async, Kani no threads/network); sequential building blocks are covered under C02/C08/C12 (DESIGN §9)",
    "C11": "quorum durability across nodes: same schedule/fault quantifier as C10 (DESIGN §9)",
    "C15": "concurrent readers during rollover: two-step publication observed from other threads; a sequential contract on rollover cannot see the intermediate state (DESIGN §9)",
    "C20": "bounded completion time is a liveness property; the contracts here are partial-correctness only (DESIGN §9)",
    "C21": "command grammar: parsers are closure trees of the external `combine` library; the property relates documentation text to a combinator value, not a function result to its arguments (DESIGN §9)",
}

PENDING = "check not built yet (build in progress; see DESIGN.md §8) — not claimed"


def main():
    props = [json.loads(l)["id"] for l in open(os.path.join(VERIF, "properties.jsonl"))]
    checks = []
    for pid in props:
        if pid in CLAIMS:
            c = CLAIMS[pid]
            checks.append({
                "property_id": pid,
                "quick_cmd": "./check %s --tier quick" % pid,
                "thorough_cmd": "./check %s --tier thorough" % pid,
                "evidence_file": "/verif/evidence/%s.json" % pid,
                "replay_cmd_template": "./check --replay {path}",
                "engine": "vx+verus+kani",
                "level_claimed": {"category": c["category"], "text": c["text"], "design_ref": c["design_ref"]},
                "level_note": c["note"],
                "technique": c["technique"],
            })
    na = []
    for pid in props:
        if pid in CLAIMS:
            continue
        na.append({"property_id": pid, "reason": NOT_APPLICABLE.get(pid, PENDING)})
    hooks_commits = []
    try:
        import subprocess
        out = subprocess.run(["git", "-C", "/repo", "log", "--format=%h %s"], capture_output=True, text=True).stdout
        hooks_commits = [l.split()[0] for l in out.splitlines() if "verif hooks" in l]
    except Exception:
        pass
    m = {
        "version": 1,
        "setup_cmd": "cd /verif && ./setup.sh",
        "hooks": {
            "guard": "sierra_db_sierradb_verif",
            "enable": "RUSTFLAGS='--cfg sierra_db_sierradb_verif' (used only by the replay runner /verif/replay; the provers read /repo source text through vx and never see hook code: rule D6 drops cfg-guarded statements)",
            "baseline_off_cmd": "cd /repo && cargo nextest run --workspace --no-fail-fast --test-threads 8 --offline",
            "source_commits": hooks_commits,
            "add_only": True,
        },
        "engines": [
            {"name": "vx", "path": "/verif/vx", "serves_properties": sorted(CLAIMS), "kind_free_text": "mechanical extractor (syn + prettyplease): re-extracts the functions under contract from /repo on every run, splices contracts"},
            {"name": "verus", "path": "verus (PATH)", "serves_properties": sorted(CLAIMS), "kind_free_text": "deductive verifier, unbounded"},
            {"name": "kani", "path": "cargo kani (PATH)", "serves_properties": sorted(CLAIMS), "kind_free_text": "CBMC back end: complete harnesses (loop-free/full-domain) and labelled bounded stand-ins; counterexample source"},
            {"name": "replay", "path": "/verif/replay", "serves_properties": sorted(CLAIMS), "kind_free_text": "replay/search drivers against the real crates (path deps on /repo/crates)"},
        ],
        "checks": checks,
        "not_applicable": na,
        "notes": "exit codes of ./check: 0 held, 1 VIOLATION, 2 UNDECIDED (anchor lost / unsupported construct / resource limit; never an alarm). Known findings: /verif/known_findings.json.",
    }
    with open(os.path.join(VERIF, "MANIFEST.json"), "w") as f:
        json.dump(m, f, indent=1)
    print("checks:", [c["property_id"] for c in checks])


if __name__ == "__main__":
    main()
