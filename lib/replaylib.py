"""Counterexample search and replay against the real crates (DESIGN.md §2.6).

The replay runner is a cargo workspace (/verif/replay) with path dependencies on /repo/crates/*, built
with --cfg sierra_db_sierradb_verif into /verif/target. Each unit has a driver inside one of its
binaries:  <bin> search <driver> <item> <seed>   and   <bin> run <driver> '<input json>'.
Both print one JSON object: {"found": bool, "input": {...}, "detail": "..."}.
"""
import hashlib
import json
import os
import subprocess
import sys

import vxlib as V

REPLAY_WS = os.path.join(V.VERIF, "replay")
TARGET = os.path.join(V.VERIF, "target")
REPLAYS = os.path.join(V.VERIF, "replays")


def build_bin(binname):
    env = dict(os.environ)
    env["CARGO_NET_OFFLINE"] = "true"
    env["RUSTFLAGS"] = (env.get("RUSTFLAGS", "") + " --cfg sierra_db_sierradb_verif").strip()
    env["CARGO_TARGET_DIR"] = TARGET
    # keep the lock file in step with /repo (path deps resolve against the same registry snapshot)
    p = subprocess.run(["cargo", "build", "--offline", "-p", binname], cwd=REPLAY_WS, env=env, capture_output=True, text=True)
    if p.returncode != 0:
        return None, p.stderr[-3000:]
    return os.path.join(TARGET, "debug", binname), ""


def run_driver(binpath, args, timeout=300, skip_known=True):
    env = dict(os.environ)
    if skip_known:
        env["VERIF_KF_OPEN"] = ",".join(k["id"] for k in V.load_known_findings() if k.get("status") == "open")
    try:
        p = subprocess.run([binpath] + args, capture_output=True, text=True, timeout=timeout, env=env)
    except subprocess.TimeoutExpired:
        return {"found": False, "detail": "driver timed out"}
    for line in reversed(p.stdout.strip().split("\n")):
        line = line.strip()
        if line.startswith("{"):
            try:
                return json.loads(line)
            except Exception:
                pass
    return {"found": False, "detail": "driver produced no result (rc=%d): %s" % (p.returncode, (p.stdout + p.stderr)[-800:])}


def make_replay(prop, unit, item, failures, seed):
    os.makedirs(REPLAYS, exist_ok=True)
    f0 = failures[0]
    rp = unit.get("replay")
    rec = {"property": prop, "unit": unit["id"], "function": item, "obligation": f0["obligation"],
           "all_failed_obligations": [{"obligation": f["obligation"], "message": f["message"], "clause": f.get("clause"), "backend": f["backend"], "src": f.get("src")} for f in failures],
           "verifier_output": "\n----\n".join(f["verifier_output"] for f in failures)[:12000],
           "inputs": None, "reproduced": False, "detail": ""}
    # Kani concrete playback, when the failing obligation came from a harness
    for f in failures:
        if f["backend"] == "kani" and f.get("crate"):
            r = V.run_kani_harness(f["crate"], f["harness"], min(f.get("timeout", 600), 240), playback=True)
            if r.get("playback"):
                rec["kani_concrete_values"] = r["playback"]
            break
    if rp:
        binpath, err = build_bin(rp["bin"])
        if binpath is None:
            rec["detail"] = "replay runner failed to build: " + err
        else:
            res = run_driver(binpath, ["search", rp["driver"], str(item), str(seed), json.dumps(rec.get("kani_concrete_values") or [])])
            rec["detail"] = res.get("detail", "")
            if res.get("found"):
                rec["inputs"] = res.get("input")
                rec["reproduced"] = True
                rec["bin"] = rp["bin"]
                rec["driver"] = rp["driver"]
    else:
        rec["detail"] = "unit has no replay driver"
    h = hashlib.sha1((f0["obligation"] + json.dumps(rec["inputs"], sort_keys=True)).encode()).hexdigest()[:10]
    path = os.path.join(REPLAYS, "%s-%s.json" % (prop, h))
    with open(path, "w") as fh:
        json.dump(rec, fh, indent=1)
    return {"path": path, "obligation": f0["obligation"], "reproduced": rec["reproduced"]}


def replay_file(path):
    rec = json.load(open(path))
    print("obligation: %s" % rec["obligation"])
    if not rec.get("inputs"):
        print("no failing input recorded (no-failing-input-found); verifier output:\n" + rec.get("verifier_output", "")[:3000])
        return 0
    binpath, err = build_bin(rec["bin"])
    if binpath is None:
        print("replay runner failed to build:\n" + err)
        return 2
    res = run_driver(binpath, ["run", rec["driver"], str(rec["function"]), json.dumps(rec["inputs"])], skip_known=False)
    print(json.dumps(res))
    if res.get("found"):
        print("REPRODUCED on the real crates: %s" % res.get("detail", ""))
        return 1
    print("not reproduced: %s" % res.get("detail", ""))
    return 0
