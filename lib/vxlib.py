"""Driver library: extraction (vx), contract splicing, Verus / Kani runs, verdicts, evidence.

See DESIGN.md §2. Nothing here caches extracted text: every call re-reads /repo.
"""
import hashlib
import json
import os
import re
import shutil
import subprocess
import sys
import time
import tomllib
from concurrent.futures import ThreadPoolExecutor

VERIF = os.path.dirname(os.path.dirname(os.path.abspath(__file__)))
REPO = os.environ.get("VERIF_REPO", "/repo")
BUILD = os.path.join(VERIF, "build")
VX = os.path.join(VERIF, "vx", "target", "release", "vx")
UNITS = os.path.join(VERIF, "units")
KF_FILE = os.path.join(VERIF, "known_findings.json")

EXIT_OK, EXIT_VIOLATION, EXIT_UNDECIDED = 0, 1, 2


class Undecided(Exception):
    pass


def log(*a):
    print(*a, file=sys.stderr, flush=True)


# --------------------------------------------------------------------------- units

def load_units():
    units = {}
    for d in sorted(os.listdir(UNITS)):
        p = os.path.join(UNITS, d, "unit.toml")
        if os.path.exists(p):
            with open(p, "rb") as f:
                u = tomllib.load(f)
            u["dir"] = os.path.join(UNITS, d)
            units[u["id"]] = u
    return units


def load_known_findings():
    if not os.path.exists(KF_FILE):
        return []
    return json.load(open(KF_FILE)).get("findings", [])


# --------------------------------------------------------------------------- extraction

VX_KEYS = ("id", "file", "path", "spec", "ret_name", "keep_fields", "keep_variants", "override_value", "extra_fields", "keep_derives",
           "rules", "rename", "slice", "keep_vis", "any_expr", "rename_calls", "erase_async", "add_attrs", "with_helpers", "env_methods")


def vx_extract(unit, rendering):
    """rendering: 'verus' (markers, verus-only rules) or 'plain' (no markers)."""
    reqs = []
    for it in unit.get("item", []):
        only = it.get("only")
        if only and only != rendering:
            continue
        r = {k: it[k] for k in VX_KEYS if k in it}
        if rendering == "verus":
            r["spec"] = bool(it.get("requires") or it.get("ensures") or it.get("contract") or it.get("spec"))
            if it.get("ret_name") is None and r["spec"]:
                r["ret_name"] = "r"
            r["loops"] = [{k: l[k] for k in ("name", "guard", "nth", "binder") if k in l} for l in it.get("loops", [])]
            r["anchors"] = [{k: a[k] for k in ("name", "pattern", "position", "nth") if k in a} for a in it.get("anchors", [])]
            r["rules"] = list(it.get("rules", [])) + list(it.get("rules_verus", []))
            rc = dict(it.get("rename_calls", {}))
            rc.update(it.get("rename_calls_verus", {}))
            if rc:
                r["rename_calls"] = rc
            if "add_attrs_verus" in it:
                r["add_attrs"] = list(it.get("add_attrs", [])) + list(it["add_attrs_verus"])
            if "extra_fields_verus" in it:
                r["extra_fields"] = list(it.get("extra_fields", [])) + list(it["extra_fields_verus"])
        else:
            r["spec"] = False
            r.pop("ret_name", None)
            if "any_expr_plain" in it:
                r["any_expr"] = it["any_expr_plain"]
            r["rules"] = list(it.get("rules", [])) + list(it.get("rules_plain", []))
            rc = dict(it.get("rename_calls", {}))
            rc.update(it.get("rename_calls_plain", {}))
            if rc:
                r["rename_calls"] = rc
            # loop binders / anchors may also be wanted in the plain rendering
            r["loops"] = [{k: l[k] for k in ("name", "guard", "nth", "binder") if k in l} for l in it.get("loops", []) if l.get("plain")]
            r["anchors"] = [{k: a[k] for k in ("name", "pattern", "position", "nth") if k in a} for a in it.get("anchors", []) if a.get("plain")]
        reqs.append(r)
    req = {"repo": REPO, "items": reqs}
    p = subprocess.run([VX], input=json.dumps(req), capture_output=True, text=True)
    if p.returncode != 0:
        raise Undecided("vx failed: " + p.stderr[-2000:])
    resp = json.loads(p.stdout)
    out = {}
    for r in resp["items"]:
        out[r["id"]] = r
    return out


def split_label(clause):
    m = re.match(r"\s*#(\w+):\s*(.*)$", clause, re.S)
    if m:
        return m.group(1), m.group(2)
    return None, clause


def carve_filter(clauses, carved, active_kf):
    """clauses may start with '@carve KF-ID: text'. They are kept only in the carved run and only if
    the finding is still open."""
    out = []
    for c in clauses:
        m = re.match(r"\s*@carve\s+([\w-]+):\s*(.*)$", c, re.S)
        if m:
            if carved and m.group(1) in active_kf:
                out.append(m.group(2))
        else:
            out.append(c)
    return out


def clause_block(kw, clauses):
    if not clauses:
        return ""
    lines = []
    for c in clauses:
        lab, txt = split_label(c)
        txt = txt.strip().rstrip(",")
        lines.append("        %s,%s" % (txt, ("  // #" + lab) if lab else ""))
    return "    %s\n%s\n" % (kw, "\n".join(lines))


def splice_item(it, resp, carved, active_kf, canary=False):
    """Turn the marker-bearing text of one extracted item into Verus text."""
    text = resp["text"]
    if "__vx_spec!();" in text:
        req = carve_filter(it.get("requires", []), carved, active_kf)
        ens = carve_filter(it.get("ensures", []), carved, active_kf)
        if canary:
            ens = list(ens) + ["#vacuity_canary: false"]
        contract = clause_block("requires", req) + clause_block("ensures", ens)
        if it.get("decreases"):
            contract += "    decreases %s,\n" % it["decreases"]
        if it.get("contract"):
            contract += it["contract"].rstrip() + "\n"
        # `{ __vx_spec!();` -> contract + `{`
        text, n = re.subn(r"\s*\{\s*__vx_spec!\(\);", lambda m: "\n" + contract + "{", text, count=1)
        if n != 1:
            raise Undecided("splice: spec marker not found in %s" % it["id"])
        if resp.get("ret_type"):
            text = text.replace("__VxRet", "(%s: %s)" % (it.get("ret_name", "r"), resp["ret_type"]), 1)
    for l in it.get("loops", []):
        marker = "__vx_loop_%s!();" % l["name"]
        spec = ""
        inv = carve_filter(l.get("invariant", []), carved, active_kf)
        spec += clause_block("invariant", inv)
        if l.get("invariant_except_break"):
            spec += clause_block("invariant_except_break", carve_filter(l["invariant_except_break"], carved, active_kf))
        if l.get("ensures"):
            spec += clause_block("ensures", carve_filter(l["ensures"], carved, active_kf))
        if l.get("decreases"):
            spec += "    decreases %s,\n" % l["decreases"]
        body_head = l.get("body_head", "")
        text, n = re.subn(r"\s*\{\s*" + re.escape(marker), lambda m: "\n" + spec + "{\n" + body_head, text, count=1)
        if n != 1:
            raise Undecided("splice: loop marker %s not found in %s" % (l["name"], it["id"]))
    for a in it.get("anchors", []):
        marker = "__vx_at_%s!();" % a["name"]
        if marker not in text:
            raise Undecided("splice: anchor marker %s not found in %s" % (a["name"], it["id"]))
        t = a.get("text", "")
        if a.get("text_carved") is not None and carved:
            t = a["text_carved"]
        text = text.replace(marker, t, 1)
    left = re.findall(r"__vx_\w+!", text)
    if left:
        raise Undecided("splice: unreplaced markers %s in %s" % (left, it["id"]))
    return text


def render(unit, template_name, rendering, carved, active_kf, canary_item=None):
    """Returns (text, linemap) where linemap is a list of (first_line, last_line, item_id)."""
    extracted = vx_extract(unit, rendering)
    errs = [(k, v["error"]) for k, v in extracted.items() if not v["ok"]]
    if errs:
        raise Undecided("extraction: " + "; ".join("%s: %s" % e for e in errs))
    items = {it["id"]: it for it in unit.get("item", [])}
    tpl = open(os.path.join(unit["dir"], template_name)).read()
    out_lines = []
    linemap = []
    for line in tpl.split("\n"):
        m = re.match(r"\s*//@item\s+(\S+)", line)
        mc = re.match(r"\s*//@carve\s+([\w-]+)\s+(.*)$", line)
        mn = re.match(r"\s*//@uncarved\s+([\w-]+)\s+(.*)$", line)
        mi = re.match(r"\s*//@include\s+(\S+)(.*)$", line)
        if mi:
            inc = open(os.path.join(VERIF, mi.group(1))).read()
            # `//@include file KEY=VAL` overrides a `/*KEY*/ default` constant of the shim
            for kv in mi.group(2).split():
                k, _, v = kv.partition("=")
                inc = re.sub(r"/\*%s\*/\s*\w+" % re.escape(k), "/*%s*/ %s" % (k, v), inc)
            out_lines.extend(inc.rstrip("\n").split("\n"))
            continue
        if m:
            iid = m.group(1)
            if iid not in extracted:
                raise Undecided("template %s references unknown item %s" % (template_name, iid))
            it = items[iid]
            r = extracted[iid]
            if rendering == "verus":
                txt = splice_item(it, r, carved, active_kf, canary=(canary_item == iid))
            else:
                txt = r["text"]
            hdr = "// @src %s:%d-%d sha256=%s" % (r["src_file"], r["line_start"], r["line_end"], r["sha256"][:16])
            first = len(out_lines) + 1
            out_lines.append(hdr)
            out_lines.extend(txt.rstrip("\n").split("\n"))
            linemap.append((first, len(out_lines), iid))
        elif mc:
            if carved and mc.group(1) in active_kf:
                out_lines.append(mc.group(2))
            else:
                out_lines.append("")
        elif mn:
            if not (carved and mn.group(1) in active_kf):
                out_lines.append(mn.group(2))
            else:
                out_lines.append("")
        else:
            out_lines.append(line)
    return "\n".join(out_lines), linemap, extracted


def item_of_line(linemap, line):
    for a, b, iid in linemap:
        if a <= line <= b:
            return iid
    return None


# --------------------------------------------------------------------------- Verus

def run_verus(path, rlimit=60, extra=None, timeout=600, seed=None, solver=None):
    cmd = ["verus", path, "--output-json", "--time", "--multiple-errors", "20", "--rlimit", str(rlimit)]
    if solver == "cvc5":
        cmd += ["-V", "cvc5"]
    if seed:
        cmd += ["--smt-option", "smt.random_seed=%d" % (seed % 1000)]
    if extra:
        cmd += extra
    cmd += ["--", "--edition=2024", "--error-format=json"]
    t0 = time.time()
    try:
        p = subprocess.run(cmd, capture_output=True, text=True, timeout=timeout, cwd=os.path.dirname(path))
    except subprocess.TimeoutExpired:
        return {"status": "timeout", "cmd": " ".join(cmd), "wall_s": time.time() - t0, "errors": [], "functions": []}
    wall = time.time() - t0
    res = {"cmd": " ".join(cmd), "wall_s": wall, "rc": p.returncode}
    try:
        j = json.loads(p.stdout)
    except Exception:
        j = None
    diags = []
    for l in p.stderr.split("\n"):
        l = l.strip()
        if not l.startswith("{"):
            continue
        try:
            d = json.loads(l)
        except Exception:
            continue
        diags.append(d)
    errors = []
    for d in diags:
        if d.get("level") != "error":
            continue
        msg = d.get("message", "")
        if msg.startswith("aborting due to"):
            continue
        spans = d.get("spans", [])
        prim = [s for s in spans if s.get("is_primary")]
        sec = [s for s in spans if not s.get("is_primary")]
        errors.append({
            "message": msg,
            "primary": [(s["line_start"], (s.get("text") or [{}])[0].get("text", "").strip()) for s in prim],
            "secondary": [(s["line_start"], s.get("label"), (s.get("text") or [{}])[0].get("text", "").strip()) for s in sec],
            "rendered": d.get("rendered", ""),
        })
    res["errors"] = errors
    res["raw_stderr_tail"] = p.stderr[-3000:] if not diags else ""
    funcs = []
    if j:
        vr = j.get("verification-results", {})
        res["verified"] = vr.get("verified", 0)
        res["n_errors"] = vr.get("errors", 0)
        res["vir_error"] = vr.get("encountered-vir-error", False)
        res["success"] = vr.get("success", False)
        for m in j.get("times-ms", {}).get("smt", {}).get("smt-run-module-times", []):
            for f in m.get("function-breakdown", []):
                funcs.append({"function": f["function"], "mode": f.get("mode:"), "ms": f["time"], "rlimit": f["rlimit"], "success": f["success"]})
        res["smt_ms"] = j.get("times-ms", {}).get("smt", {}).get("total", 0)
        res["status"] = "ok" if res["success"] else "errors"
    else:
        res["status"] = "crash"
    res["functions"] = funcs
    # classify
    VERDICT = ("postcondition not satisfied", "precondition not satisfied", "assertion failed", "invariant not satisfied",
               "possible arithmetic underflow/overflow", "possible division by zero", "decreases not satisfied",
               "index out of bounds", "unreachable", "possible bit shift", "recommendation not met", "cannot show",
               "might fail", "loop invariant", "not satisfied", "possible")
    definite, other = [], []
    for e in errors:
        if "rlimit" in e["message"].lower() or "resource limit" in e["message"].lower() or "timed out" in e["message"].lower():
            other.append(e)
        elif any(v in e["message"] for v in VERDICT):
            definite.append(e)
        else:
            other.append(e)
    res["definite"] = definite
    res["other"] = other
    if res["status"] == "errors" and not definite:
        res["status"] = "unsupported" if other else "errors"
    if res["status"] == "errors" and other:
        # mixture: front-end errors present => nothing was verified reliably
        if res.get("vir_error") or any("rlimit" not in o["message"] for o in other):
            res["status"] = "unsupported"
    return res


# --------------------------------------------------------------------------- Kani

def kani_crate(unit, task, carved, active_kf):
    d = os.path.join(BUILD, "kani", unit["id"] + "_" + task["name"] + ("" if carved else "_uncarved"))
    os.makedirs(os.path.join(d, "src"), exist_ok=True)
    os.makedirs(os.path.join(d, ".cargo"), exist_ok=True)
    text, linemap, extracted = render(unit, task["template"], "plain", carved, active_kf)
    _write_if_changed(os.path.join(d, "src", "lib.rs"), text)
    deps = task.get("deps", "")
    cargo = "[package]\nname = \"%s\"\nversion = \"0.1.0\"\nedition = \"2024\"\n\n[lib]\npath = \"src/lib.rs\"\n\n[dependencies]\n%s\n\n[workspace]\n\n[lints.rust]\nunexpected_cfgs = { level = \"allow\", check-cfg = ['cfg(kani)'] }\n" % (
        ("vk_" + unit["id"] + "_" + task["name"]).lower(), deps)
    _write_if_changed(os.path.join(d, "Cargo.toml"), cargo)
    _write_if_changed(os.path.join(d, ".cargo", "config.toml"), "[net]\noffline = true\n")
    lock = os.path.join(REPO, "Cargo.lock")
    if os.path.exists(lock) and not os.path.exists(os.path.join(d, "Cargo.lock")):
        shutil.copy(lock, os.path.join(d, "Cargo.lock"))
    return d, linemap, extracted


def _write_if_changed(p, text):
    if os.path.exists(p) and open(p).read() == text:
        return
    with open(p, "w") as f:
        f.write(text)


def _kani_cache_key(crate_dir, harness, extra):
    h = hashlib.sha256()
    for f in ("src/lib.rs", "Cargo.toml"):
        try:
            h.update(open(os.path.join(crate_dir, f), "rb").read())
        except OSError:
            pass
    h.update(("|%s|%s|kani-0.68" % (harness, extra)).encode())
    return h.hexdigest()


def run_kani_harness(crate_dir, harness, timeout=600, playback=False, extra=None, target_dir=None):
    """Verdicts are memoised on the exact text they were computed from (rendered crate + harness + arguments): a second
    property check in the same sandbox that needs the same harness on byte-identical extracted text reuses the verdict;
    any change to the extracted /repo text, the contracts or the harness changes the key."""
    cache_dir = os.path.join(BUILD, "cache")
    key = _kani_cache_key(crate_dir, harness, extra)
    cpath = os.path.join(cache_dir, key + ".json")
    if not playback and os.environ.get("VERIF_NO_CACHE") != "1" and os.path.exists(cpath):
        try:
            r = json.load(open(cpath))
            if "covers_total" in r:
                r["cached"] = True
                return r
        except Exception:
            pass
    r = _run_kani_harness(crate_dir, harness, timeout, playback, extra, target_dir)
    if not playback and r.get("status") in ("ok", "failed"):
        os.makedirs(cache_dir, exist_ok=True)
        try:
            json.dump({k: v for k, v in r.items() if k != "full_output"}, open(cpath, "w"))
        except Exception:
            pass
    return r


def _run_kani_harness(crate_dir, harness, timeout=600, playback=False, extra=None, target_dir=None):
    cmd = ["cargo", "kani", "-Z", "function-contracts", "-Z", "stubbing", "--harness", (harness if "::" in harness else "verif::" + harness), "--exact"]
    if playback:
        cmd += ["-Z", "concrete-playback", "--concrete-playback=print"]
    if extra:
        cmd += extra
    env = dict(os.environ)
    env["CARGO_NET_OFFLINE"] = "true"
    if target_dir:
        cmd += ["--target-dir", target_dir]
    t0 = time.time()
    try:
        # address-space cap per harness process tree: a runaway CBMC ends as "out of memory" (undecided) instead of taking the machine down
        def _cap():
            import resource
            lim = int(os.environ.get("VERIF_KANI_MEM_GB", "32")) << 30
            resource.setrlimit(resource.RLIMIT_AS, (lim, lim))
        p = subprocess.run(["timeout", str(timeout)] + cmd, capture_output=True, text=True, cwd=crate_dir, env=env, preexec_fn=_cap)
    except Exception as e:  # pragma: no cover
        return {"status": "crash", "harness": harness, "output": str(e), "wall_s": time.time() - t0, "cmd": " ".join(cmd)}
    wall = time.time() - t0
    out = p.stdout + "\n" + p.stderr
    res = {"harness": harness, "wall_s": wall, "cmd": " ".join(cmd), "rc": p.returncode}
    m = re.search(r"\*\* (\d+) of (\d+) failed", out)
    if m:
        res["failed_checks"] = int(m.group(1))
        res["total_checks"] = int(m.group(2))
    ms = re.search(r"VERIFICATION:- (SUCCESSFUL|FAILED)", out)
    res["failed_descriptions"] = re.findall(r"Failed Checks: (.*)", out)
    res["unwinding_failed"] = any("unwinding assertion" in x for x in res["failed_descriptions"])
    mt = re.search(r"Verification Time: ([\d.]+)s", out)
    res["solver_s"] = float(mt.group(1)) if mt else None
    if p.returncode == 124:
        res["status"] = "timeout"
    elif "run out of memory" in out or "std::bad_alloc" in out or "Out of memory" in out or ("CBMC failed" in out and not res["failed_descriptions"]):
        res["status"] = "oom"
    elif ms and ms.group(1) == "SUCCESSFUL":
        res["status"] = "ok"
    elif ms and ms.group(1) == "FAILED" and not res["failed_descriptions"] and re.search(r"Status: ERROR", out):
        # CBMC could not decide some checks (solver error / resource exhaustion): undecided, never a violation
        res["status"] = "oom"
    elif ms and ms.group(1) == "FAILED":
        res["status"] = "unwinding" if res["unwinding_failed"] and all("unwinding" in x for x in res["failed_descriptions"]) else "failed"
    else:
        res["status"] = "crash"
    if "total_checks" not in res:
        # all passed: count the checks lines
        res["total_checks"] = len(re.findall(r"^Check \d+:", out, re.M))
        res["failed_checks"] = 0 if res["status"] == "ok" else res.get("failed_checks", 0)
    # reachability covers (kani::cover! in the harness): "** s of t cover properties satisfied"
    mc = re.search(r"\*\* (\d+) of (\d+) cover properties satisfied", out)
    res["covers_satisfied"], res["covers_total"] = (int(mc.group(1)), int(mc.group(2))) if mc else (0, 0)
    res["output_tail"] = out[-4000:]
    if playback:
        res["playback"] = parse_playback(out)
    res["full_output"] = out if res["status"] != "ok" else ""
    return res


def parse_playback(out):
    """Concrete playback prints a unit test with `let concrete_vals: Vec<Vec<u8>> = vec![ ... ];`,
    each vec commented with its value."""
    vals = []
    m = re.search(r"concrete_vals: Vec<Vec<u8>> = vec!\[(.*?)\];", out, re.S)
    if not m:
        return None
    for line in m.group(1).split("\n"):
        mm = re.match(r"\s*//\s*(.*)$", line)
        if mm:
            vals.append(mm.group(1).strip())
    return vals


# --------------------------------------------------------------------------- evidence

def write_evidence(prop, tier, seed, level, coverage, assumptions, wall, violations):
    os.makedirs(os.path.join(VERIF, "evidence"), exist_ok=True)
    ev = {"property_id": prop, "tier": tier, "seed": seed, "level": level, "coverage": coverage,
          "assumptions": assumptions, "wall_s": round(wall, 2), "violations": violations}
    with open(os.path.join(VERIF, "evidence", prop + ".json"), "w") as f:
        json.dump(ev, f, indent=1, sort_keys=False)


def scan_assumptions(text):
    """Mechanical scan of a unit text for everything that is assumed rather than proved."""
    found = []
    for i, line in enumerate(text.split("\n"), 1):
        s = line.strip()
        if s.startswith("//"):
            continue
        for kw in ("external_body", "assume_specification", "assume(", "admit(", "verifier::external", "kani::assume", "kani::stub", "uninterp spec"):
            if kw in s:
                found.append((kw, i, s[:160]))
    return found
