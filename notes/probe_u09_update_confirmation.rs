// DESIGN-PHASE PROBE (not framework code). Verbatim body of PartitionConfirmationState::update_confirmation
// (crates/sierradb-cluster/src/confirmation.rs:83) after R1 (clock), R6 (entry().or_insert_with), retain shim, G1 ghost field `wm`.
// verus: per-call contract (monotone, sound, frame) verifies; the one remaining error is the genuine u8 overflow `event.attempts += 1`.
use vstd::prelude::*;
use std::collections::BTreeMap;
verus! {
pub type PartitionId = u16;

// ---------------- shim environment ----------------
pub struct Arc<T>(pub Box<T>);
impl<T> Arc<T> {
    pub open spec fn inner(&self) -> T { *self.0 }
}
impl<T> std::ops::Deref for Arc<T> { type Target = T; fn deref(&self) -> (r: &T) ensures *r == self.inner() { &self.0 } }

/// sequential view of the watermark cell for the per-call contract; the concurrent
/// protocol (monotone CAS) is a separate instantiation
#[verifier::external_body]
pub struct AtomicWatermark { v: std::sync::atomic::AtomicU64 }
impl AtomicWatermark {
    pub uninterp spec fn val(&self) -> u64;
    #[verifier::external_body]
    pub fn get(&self) -> (r: u64) ensures r == self.val() { unimplemented!() }
    /// `&self` with interior mutability: the new value is exposed through a prophecy-free
    /// trick: advance returns the previous value and the *caller's* ghost state records it.
    #[verifier::external_body]
    pub fn advance(&self, new_value: u64) -> (r: Option<u64>)
        ensures r is Some <==> new_value > self.val(), r is Some ==> r->0 == self.val()
    { unimplemented!() }
}
#[verifier::external_body]
pub fn verif_any_u64() -> u64 { unimplemented!() }

pub struct UnconfirmedEventInfo {
    pub version: u64,
    pub confirmation_count: u8,
    pub first_seen: u64,
    pub last_attempt: u64,
    pub attempts: u8,
}
#[verifier::external_body]
pub fn map_entry_or_insert<'a>(m: &'a mut BTreeMap<u64, UnconfirmedEventInfo>, k: u64, dflt: UnconfirmedEventInfo) -> (r: &'a mut UnconfirmedEventInfo)
    ensures
        old(m)@.contains_key(k) ==> *r == old(m)@[k],
        !old(m)@.contains_key(k) ==> *r == dflt,
        final(m)@ == old(m)@.insert(k, *final(r)),
{ unimplemented!() }

#[verifier::external_body]
pub fn btree_retain_gt(m: &mut BTreeMap<u64, UnconfirmedEventInfo>, bound: u64)
    ensures forall|k: u64| #![auto] final(m)@.contains_key(k) <==> (old(m)@.contains_key(k) && k > bound),
            forall|k: u64| #![auto] final(m)@.contains_key(k) ==> final(m)@[k] == old(m)@[k],
{ unimplemented!() }

pub struct PartitionConfirmationState {
    pub partition_id: PartitionId,
    pub highest_version: u64,
    pub confirmed_watermark: Arc<AtomicWatermark>,
    pub unconfirmed_events: BTreeMap<u64, UnconfirmedEventInfo>,
    pub wm: Ghost<u64>,   // G1: value of the cell as last written by this state (sequential instantiation)
}

pub open spec fn quorum(rf: u8) -> int { rf as int / 2 + 1 }

impl PartitionConfirmationState {
    /// returns (advanced, new watermark as ghost) -- the ghost result stands for the cell's value after the call
    pub fn update_confirmation(
        &mut self,
        version: u64,
        confirmation_count: u8,
        replication_factor: u8,
    ) -> (r: bool)
        requires
            old(self).wm@ == old(self).confirmed_watermark.inner().val(),
            version < u64::MAX,
            old(self).confirmed_watermark.inner().val() < u64::MAX,
            forall|k: u64| old(self).unconfirmed_events@.contains_key(k) ==> k < u64::MAX,
        ensures
            // monotone
            final(self).wm@ >= old(self).confirmed_watermark.inner().val(),
            r == (final(self).wm@ > old(self).confirmed_watermark.inner().val()),
            // sound: everything newly covered by the watermark carries a quorum count in the table
            forall|v: u64| old(self).confirmed_watermark.inner().val() < v <= final(self).wm@ ==>
                (if v == version { confirmation_count as int >= quorum(replication_factor) }
                 else { old(self).unconfirmed_events@.contains_key(v) && old(self).unconfirmed_events@[v].confirmation_count as int >= quorum(replication_factor) }),
            // frame: other pending versions above the new watermark keep their counts
            forall|v: u64| v > final(self).wm@ && v != version && old(self).unconfirmed_events@.contains_key(v) ==>
                final(self).unconfirmed_events@.contains_key(v)
                && final(self).unconfirmed_events@[v].confirmation_count == old(self).unconfirmed_events@[v].confirmation_count,
    {
        // Track highest version we've seen
        if version > self.highest_version {
            self.highest_version = version;
        }

        // If the version is already below or at the watermark, nothing to do
        let confirmed_watermark = self.confirmed_watermark.get();
        if version <= confirmed_watermark {
            return false;
        }

        // Update or create unconfirmed event entry
        let now = verif_any_u64();

        let event = map_entry_or_insert(&mut self.unconfirmed_events, version, UnconfirmedEventInfo {
                    version,
                    confirmation_count: 0,
                    first_seen: now,
                    last_attempt: now,
                    attempts: 0,
                });

        // Update the event's confirmation status
        event.confirmation_count = confirmation_count;
        event.last_attempt = now;
        event.attempts += 1;

        proof {
            assert(self.unconfirmed_events@.contains_key(version));
            assert(self.unconfirmed_events@[version].confirmation_count == confirmation_count);
            assert(forall|v: u64| v != version ==> (self.unconfirmed_events@.contains_key(v) <==> old(self).unconfirmed_events@.contains_key(v)));
            assert(forall|v: u64| v != version && self.unconfirmed_events@.contains_key(v) ==> self.unconfirmed_events@[v] == old(self).unconfirmed_events@[v]);
        }
        let ghost mid = self.unconfirmed_events@;
        // Check if we can advance the watermark
        let required_quorum = (replication_factor / 2) + 1;

        // Find the highest contiguous confirmed version
        let mut next_expected = confirmed_watermark + 1;
        let mut new_watermark = confirmed_watermark;

        // Try to advance watermark contiguously
        while let Some(event) = self.unconfirmed_events.get(&next_expected)
            invariant
                self.unconfirmed_events@ == mid,
                new_watermark >= confirmed_watermark, next_expected == new_watermark + 1,
                forall|k: u64| self.unconfirmed_events@.contains_key(k) ==> k < u64::MAX,
                required_quorum as int == quorum(replication_factor),
                forall|v: u64| confirmed_watermark < v <= new_watermark ==>
                    self.unconfirmed_events@.contains_key(v) && self.unconfirmed_events@[v].confirmation_count >= required_quorum,
            decreases u64::MAX - next_expected
        {
            if event.confirmation_count >= required_quorum {
                new_watermark = next_expected;
                next_expected += 1;
            } else {
                break;
            }
        }

        let watermark_advanced = new_watermark > confirmed_watermark;

        // Update watermark if it advanced
        if watermark_advanced {
            if let Some(_prev_watermark) = self.confirmed_watermark.advance(new_watermark) {
            }
            proof { self.wm = Ghost(new_watermark); }

            // Clean up unconfirmed events that are now below the watermark
            btree_retain_gt(&mut self.unconfirmed_events, new_watermark);
        }

        watermark_advanced
    }
}
}
fn main() {}
