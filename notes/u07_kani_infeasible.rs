// U07 (Kani) — placement: TopologyManager::{calculate_assigned_partitions, calculate_partition_replicas} (C14) and
// AppConfig::{assigned_buckets, assigned_partitions, node_count} (C13), extracted verbatim, compiled against the
// model HashMap/HashSet (D4) and the real arrayvec crate. Spec: replica_nodes(b, N, rf) = { (b % N + k) % N | k < min(rf, N) }.
#![allow(unused, dead_code)]
//@include shims/model_hash.rs CAP=6
use arrayvec::ArrayVec;

// ---- environment (D4): the cluster key is any cloneable ordered token; config error / value types are opaque ----
pub trait ClusterKey: Clone + Ord {}
impl ClusterKey for usize {}
#[derive(Debug)]
pub enum ConfigError { Message(String) }
#[derive(Debug)]
pub struct Value;

//@item MAX_REPLICATION_FACTOR
//@item PartitionId
//@item BucketId
//@item TopologyManager
//@item TopologyManager::calculate_assigned_partitions
//@item TopologyManager::calculate_partition_replicas
//@item AppConfig
//@item BucketConfig
//@item NodeConfig
//@item PartitionConfig
//@item ReplicationConfig
//@item AppConfig::assigned_buckets
//@item AppConfig::assigned_partitions
//@item AppConfig::node_count

#[cfg(kani)]
mod verif {
    use super::*;
    type TM = TopologyManager<usize>;

    fn minu(a: usize, b: usize) -> usize { if a < b { a } else { b } }
    /// is `node` one of the min(rf, n) replicas of bucket b?
    fn in_replica_set(node: usize, b: usize, n: usize, rf: usize) -> bool {
        let eff = minu(rf, n);
        let primary = b % n;
        let off = (node + n - primary) % n; // offset of node from the primary, in 0..n
        node < n && off < eff
    }

    /// calculate_partition_replicas: for ANY cluster size (incl. N >= 256), bucket count, partition, rf <= 12 and any set
    /// of <= 3 known nodes: the result is exactly the known members of the replica set, in offset order, no duplicates.
    #[kani::proof]
    #[kani::unwind(7)]
    fn topo_partition_replicas() {
        let n: usize = kani::any();
        let b: u16 = kani::any();
        let p: u16 = kani::any();
        let rf: u8 = kani::any();
        kani::assume(n >= 1 && n <= (1usize << 40) && b >= 1 && rf >= 1 && rf <= 4);
        // known nodes: up to 3 distinct indices below n, each mapped to itself
        let cnt: usize = kani::any();
        kani::assume(cnt >= 1 && cnt <= 3);
        let (i0, i1, i2): (usize, usize, usize) = (kani::any(), kani::any(), kani::any());
        kani::assume(i0 < n && i1 < n && i2 < n && i0 != i1 && i0 != i2 && i1 != i2);
        let mut known: HashMap<usize, usize> = HashMap::new();
        known.insert(i0, i0);
        if cnt > 1 { known.insert(i1, i1); }
        if cnt > 2 { known.insert(i2, i2); }
        let r = TM::calculate_partition_replicas(p, b, n, rf, &known);
        let primary = (p % b) as usize % n;
        let eff = minu(rf as usize, n);
        // every result element is a known member of the replica set, offsets strictly increasing
        let mut last_off: Option<usize> = None;
        let mut j = 0;
        while j < r.len() {
            let node = r[j];
            assert!(known.contains_key(&node), "only known nodes are listed");
            let off = (node + n - primary) % n;
            assert!(off < eff, "only nodes of the partition's replica set (min(rf, N) offsets from the primary) are listed");
            if let Some(l) = last_off { assert!(off > l, "replicas are in offset order and distinct"); }
            last_off = Some(off);
            j += 1;
        }
        // and every known member of the replica set is listed
        let expected = (in_replica_set(i0, (p % b) as usize, n, rf as usize) as usize)
            + ((cnt > 1 && in_replica_set(i1, (p % b) as usize, n, rf as usize)) as usize)
            + ((cnt > 2 && in_replica_set(i2, (p % b) as usize, n, rf as usize)) as usize);
        assert!(r.len() == expected, "every known node of the replica set is listed exactly once");
        kani::cover!(n >= 256 && r.len() == 2, "reachable: large cluster");
    }

    /// With every node known (N <= 4): exactly min(rf, N) distinct replicas, and node i is listed iff
    /// calculate_assigned_partitions(i, ..) contains the partition.
    #[kani::proof]
    #[kani::unwind(8)]
    fn topo_owner_iff_replica_bounded() {
        let n: usize = kani::any();
        let b: u16 = kani::any();
        let parts: u16 = kani::any();
        let rf: u8 = kani::any();
        kani::assume(n >= 1 && n <= 4 && b >= 1 && b <= 4 && parts >= 1 && parts <= 5 && rf >= 1 && rf <= 5);
        let mut known: HashMap<usize, usize> = HashMap::new();
        let mut i = 0;
        while i < n { known.insert(i, i); i += 1; }
        let p: u16 = kani::any();
        kani::assume(p < parts);
        let r = TM::calculate_partition_replicas(p, b, n, rf, &known);
        assert!(r.len() == minu(rf as usize, n), "exactly min(rf, N) replicas when all nodes are known");
        let node: usize = kani::any();
        kani::assume(node < n);
        let owned = TM::calculate_assigned_partitions(node, n, parts, b, rf);
        let listed = r.iter().any(|x| *x == node);
        assert!(owned.contains(&p) == listed, "a node owns a partition iff it appears in that partition's replica set");
        assert!(listed == in_replica_set(node, (p % b) as usize, n, rf as usize));
        // assigned partitions are exactly the partitions of the node's buckets
        let q: u16 = kani::any();
        kani::assume(q < parts);
        assert!(owned.contains(&q) == in_replica_set(node, (q % b) as usize, n, rf as usize));
        assert!(owned.len() <= parts as usize);
    }

    fn cfg(node_count: u32, index: u32, buckets: u16, parts: u16, rf: u8) -> AppConfig {
        AppConfig {
            bucket: BucketConfig { count: buckets, ids: None },
            node: NodeConfig { count: Some(node_count), index },
            partition: PartitionConfig { count: parts, ids: None },
            replication: ReplicationConfig { factor: rf },
            nodes: None,
        }
    }

    /// C13: for every validated configuration (small): the buckets a node opens are exactly the buckets of the
    /// partitions the topology assigns to it.
    #[kani::proof]
    #[kani::unwind(8)]
    fn placement_agrees_with_routing_bounded() {
        let n: u32 = kani::any();
        let idx: u32 = kani::any();
        let b: u16 = kani::any();
        let parts: u16 = kani::any();
        let rf: u8 = kani::any();
        // the clauses of AppConfig::validate that concern placement
        kani::assume(n >= 1 && n <= 3 && idx < n && b >= 1 && b <= 4 && parts >= b && parts <= 5 && parts as u32 >= n && rf >= 1 && rf as u32 <= n);
//@carve KF-C13-contiguous-vs-modulo         kani::assume(rf as u32 == n || (b as u32) <= n);
        let c = cfg(n, idx, b, parts, rf);
        let buckets = c.assigned_buckets().unwrap();
        let stored = c.assigned_partitions(&buckets);
        let routed = TM::calculate_assigned_partitions(idx as usize, n as usize, parts, b, rf);
        let q: u16 = kani::any();
        kani::assume(q < parts);
        assert!(stored.contains(&q) == routed.contains(&q), "a partition routed to this node is stored by it, and vice versa");
        let bk: u16 = kani::any();
        kani::assume(bk < b);
        assert!(buckets.contains(&bk) == in_replica_set(idx as usize, bk as usize, n as usize, rf as usize),
            "the buckets a node opens are exactly the buckets whose replica set contains it");
    }
}
