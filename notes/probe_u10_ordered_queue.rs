// DESIGN-PHASE PROBE (not framework code). Verbatim OrderedQueue::{pop,progress_to,next} (crates/sierradb-cluster/src/write/ordered_queue.rs:97-113).
// verus: pop/progress_to/next verify for generic K under `obeys_cmp_spec::<K>()`; `progress_u64` (queue invariant "no key below next",
// C12) fails because progress_to only assigns `next` -- the candidate reproduced on the real crate (buffered 6,7 survive progress_to(8)).
use vstd::prelude::*;
use std::collections::BTreeMap;
verus! {
pub struct OrderedQueue<K, V> {
    pub map: BTreeMap<K, V>,
    pub next: K,
    pub limit: usize,
}
impl<K, V> OrderedQueue<K, V> {
    pub fn pop(&mut self) -> (r: Option<V>)
    where
        K: Ord,
        requires vstd::laws_cmp::obeys_cmp_spec::<K>()
        ensures final(self).next == old(self).next, final(self).map@ == old(self).map@.remove(old(self).next),
                r == (if old(self).map@.contains_key(old(self).next) { Some(old(self).map@[old(self).next]) } else { None::<V> }),
    {
        self.map.remove(&self.next)
    }

    pub fn progress_to(&mut self, next: K)
        ensures final(self).next == next, final(self).map@ == old(self).map@
    {
        self.next = next;
    }

    pub fn next(&self) -> (r: &K) ensures *r == self.next {
        &self.next
    }
}
// u64 instantiation for the queue invariant of C12
pub open spec fn qwf(q: &OrderedQueue<u64, u8>) -> bool { forall|k: u64| q.map@.contains_key(k) ==> k >= q.next }
pub fn progress_u64(q: &mut OrderedQueue<u64, u8>, n: u64)
    requires qwf(old(q)), n >= old(q).next
    ensures qwf(final(q))      // "none is left pending below the next expected sequence"
{
    q.progress_to(n);
}
}
fn main() {}
