// U07b (Kani) — TopologyManager::get_available_replicas (C14: "every node that knows the same live members computes the same
// replica sets and the same coordinator order"): extracted verbatim against the model HashMap (D4) and the real arrayvec crate.
// Contract: the result is exactly the replicas of the partition that are active, ordered by (alive_since, replica key) — a
// function of the partition's replica list and the membership view only (not of heartbeat arrival times or map iteration order).
#![allow(unused, dead_code)]
//@include shims/model_hash.rs CAP=4
use arrayvec::ArrayVec;

#[derive(Clone, Copy, Debug, PartialEq, Eq, PartialOrd, Ord, Hash)]
pub struct PeerId(pub u8);
#[derive(Clone, Copy, Debug, PartialEq, Eq, PartialOrd, Ord, Hash)]
pub struct ActorId { pub peer: PeerId }
impl ActorId { pub fn peer_id(&self) -> Option<&PeerId> { Some(&self.peer) } }
pub trait ClusterKey: Clone + Ord { fn id(&self) -> ActorId; }
/// a cluster reference token: ordered by `key`, living on peer `peer`
#[derive(Clone, Copy, Debug, PartialEq, Eq, PartialOrd, Ord)]
pub struct Node { pub key: u8, pub peer: u8 }
impl ClusterKey for Node { fn id(&self) -> ActorId { ActorId { peer: PeerId(self.peer) } } }
#[derive(Clone, Copy, Debug)]
pub struct Instant(pub u64);

//@item MAX_REPLICATION_FACTOR
//@item PartitionId
//@item TopologyManager
//@item TopologyManager::get_available_replicas

#[cfg(kani)]
mod verif {
    use super::*;

    #[kani::proof]
    #[kani::unwind(5)]
    fn topo_available_replicas_order() {
        // a partition with up to 3 replicas on distinct peers
        let n: usize = kani::any();
        kani::assume(n <= 2);
        let keys: [u8; 3] = kani::any();
        kani::assume(keys[0] != keys[1] && keys[0] != keys[2] && keys[1] != keys[2]);
        let mut reps: ArrayVec<Node, MAX_REPLICATION_FACTOR> = ArrayVec::new();
        let mut i = 0;
        while i < n { reps.push(Node { key: keys[i], peer: i as u8 }); i += 1; }
        let mut partition_replicas = HashMap::new();
        partition_replicas.insert(7u16, reps.clone());
        // membership view: each peer may be active with any alive_since; heartbeat arrival times are arbitrary
        let mut active_nodes = HashMap::new();
        let mut node_heartbeats = HashMap::new();
        let alive: [bool; 3] = kani::any();
        let since: [u64; 3] = kani::any();
        let mut p = 0;
        while p < 3 { if alive[p] { active_nodes.insert(PeerId(p as u8), (since[p], p)); } node_heartbeats.insert(PeerId(p as u8), Instant(kani::any())); p += 1; }
        let m = TopologyManager { partition_replicas, active_nodes, node_heartbeats };
        let r = m.get_available_replicas(7);
        // exactly the active replicas
        let mut expect = 0;
        let mut j = 0;
        while j < n { if alive[j] { expect += 1; } j += 1; }
        assert!(r.len() == expect, "exactly the replicas that are active");
        let mut k = 0;
        while k < r.len() {
            let (node, s) = r[k];
            assert!((node.peer as usize) < n && alive[node.peer as usize] && s == since[node.peer as usize] && node.key == keys[node.peer as usize], "each entry is an active replica of the partition with its alive_since");
            if k > 0 {
                let (pn, ps) = r[k - 1];
                assert!(ps < s || (ps == s && pn.key < node.key), "coordinator order is (alive_since, replica key): a function of the membership view only");
            }
            k += 1;
        }
        // unknown partition: nothing
        assert!(m.get_available_replicas(8).is_empty());
    }
}
