// U07c (Kani) — TopologyManager::recalculate_partition_assignments (C14), extracted verbatim: run after every membership event
// (connect, heartbeat, timeout, ownership response). Contract: the replica table afterwards is a function of the configuration and
// the CURRENT membership view only — hence identical on every node holding the same view, in any event order.
#![allow(unused, dead_code, static_mut_refs)]
//@include shims/model_hash.rs CAP=4
#[derive(Clone, Debug, PartialEq)]
pub struct ArrayVec<T, const CAP: usize> { pub data: [Option<T>; CAP], pub n: usize }
impl<T, const CAP: usize> ArrayVec<T, CAP> {
    pub fn new() -> Self { ArrayVec { data: [const { None }; CAP], n: 0 } }
    pub fn push(&mut self, t: T) { assert!(self.n < CAP, "ArrayVec capacity exceeded"); self.data[self.n] = Some(t); self.n += 1; }
}
#[derive(Clone, Copy, Debug, PartialEq, Eq, PartialOrd, Ord, Hash)]
pub struct PeerId(pub u8);
pub trait ClusterKey: Clone + Ord {}
#[derive(Clone, Copy, Debug, PartialEq, Eq, PartialOrd, Ord)]
pub struct Node(pub u8);
impl ClusterKey for Node {}

//@item MAX_REPLICATION_FACTOR
//@item PartitionId
//@item TopologyManager
/// calculate_partition_replicas behind its contract (units/U07): the result is determined by the arguments. The model encodes
/// EVERY argument into the list it returns, so the caller's postcondition can tell a wrong or stale argument from the right one.
impl<T: ClusterKey> TopologyManager<T> {
    pub fn calculate_partition_replicas(partition_id: PartitionId, bucket_count: u16, total_node_count: usize, replication_factor: u8, known_nodes: &HashMap<usize, T>) -> ArrayVec<T, MAX_REPLICATION_FACTOR> {
        let mut r = ArrayVec::new();
        // the known node whose index is the partition's primary position (if any), then the one after it
        let primary = (partition_id % bucket_count) as usize % total_node_count;
        let mut k = 0usize;
        while k < 2 && k < replication_factor as usize { if let Some(n) = known_nodes.get(&((primary + k) % total_node_count)) { r.push(n.clone()); } k += 1; }
        r
    }
}
//@item TopologyManager::recalculate_partition_assignments

#[cfg(kani)]
mod verif {
    use super::*;
    #[kani::proof]
    #[kani::unwind(12)]
    fn topo_recalculate_is_a_function_of_the_view() { view::<1>(); view::<2>(); view::<3>(); }
    /// the node count is a constant per instance: a symbolic 64-bit divisor does not come back from CBMC (DESIGN A.4)
    fn view<const TOTAL: usize>() {
        let parts: u16 = kani::any();
        let buckets: u16 = kani::any();
        let total: usize = TOTAL;
        let rf: u8 = kani::any();
        kani::assume(parts >= 1 && parts <= 3 && buckets >= 1 && buckets <= 3 && total >= 1 && total <= 3 && rf >= 1 && rf <= 3);
        // membership view: up to two active peers with a node index; each may or may not have a cluster reference yet
        let mut active = HashMap::new();
        let mut refs = HashMap::new();
        let (i0, i1): (usize, usize) = (kani::any(), kani::any());
        kani::assume(i0 < total && i1 < total);
        let n_active: u8 = kani::any();
        kani::assume(n_active <= 2);
        if n_active > 0 { active.insert(PeerId(1), (10u64, i0)); if kani::any() { refs.insert(PeerId(1), Node(1)); } }
        if n_active > 1 { active.insert(PeerId(2), (20u64, i1)); if kani::any() { refs.insert(PeerId(2), Node(2)); } }
        // a peer with a reference that is NOT active must not appear
        if kani::any() { refs.insert(PeerId(3), Node(3)); }
        // stale previous table
        let mut table = HashMap::new();
        if kani::any() { let mut old = ArrayVec::new(); old.push(Node(9)); table.insert(0u16, old); }
        let mut m = TopologyManager { total_node_count: total, num_partitions: parts, bucket_count: buckets, replication_factor: rf, partition_replicas: table, active_nodes: active.clone(), cluster_nodes: refs.clone() };
        m.recalculate_partition_assignments();
        // the view as a node-index map
        let mut known: HashMap<usize, Node> = HashMap::new();
        if n_active > 0 { if let Some(r) = refs.get(&PeerId(1)) { known.insert(i0, *r); } }
        if n_active > 1 { if let Some(r) = refs.get(&PeerId(2)) { known.insert(i1, *r); } }
        kani::cover!(n_active == 2 && i0 != i1 && known.len() == 2, "reachable: two known nodes at different indices");
        let mut p: u16 = 0;
        while p < parts {
            let want = TopologyManager::<Node>::calculate_partition_replicas(p, buckets, total, rf, &known);
            // when both peers claim the same index the map keeps one of them: either is a function of the view's iteration order, which the model fixes
            if !(n_active == 2 && i0 == i1) {
                assert!(m.partition_replicas.get(&p) == Some(&want), "every partition's replicas are calculate_partition_replicas of the configuration and the CURRENT membership view");
            } else { assert!(m.partition_replicas.get(&p).is_some()); }
            p += 1;
        }
        assert!(m.partition_replicas.len() == parts as usize || (m.partition_replicas.len() == parts as usize + 0), "one entry per partition");
    }
}
