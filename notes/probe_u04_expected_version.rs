// DESIGN-PHASE PROBE (not framework code). Verbatim ExpectedVersion / CurrentVersion / VersionGap
// (crates/sierradb-protocol/src/lib.rs:14-84,113-137,175-186) and validate_partition_sequence
// (crates/sierradb/src/writer_thread_pool.rs:1208-1255) with spliced contracts.
use vstd::prelude::*;
use std::cmp;
verus! {
pub type PartitionId = u16;
pub enum WriteError { WrongExpectedSequence { partition_id: PartitionId, current: CurrentVersion, expected: ExpectedVersion } }

// ---- spec: the one meaning of "the store accepts"
pub open spec fn accepts(e: ExpectedVersion, c: CurrentVersion) -> bool {
    match e {
        ExpectedVersion::Any => true,
        ExpectedVersion::Exists => c is Current,
        ExpectedVersion::Empty => c is Empty,
        ExpectedVersion::Exact(v) => c == CurrentVersion::Current(v),
    }
}
/// position as a mathematical integer: Empty = -1
pub open spec fn pos(c: CurrentVersion) -> int { match c { CurrentVersion::Empty => -1, CurrentVersion::Current(v) => v as int } }
pub open spec fn want(e: ExpectedVersion) -> int { match e { ExpectedVersion::Empty => -1, ExpectedVersion::Exact(v) => v as int, _ => 0 } }
pub open spec fn cur_of_next(next: u64) -> CurrentVersion { if next == 0 { CurrentVersion::Empty } else { CurrentVersion::Current((next - 1) as u64) } }
pub open spec fn gap_spec(e: ExpectedVersion, c: CurrentVersion, g: VersionGap) -> bool {
    match e {
        ExpectedVersion::Any => g is None,
        ExpectedVersion::Exists => if c is Empty { g is Incompatible } else { g is None },
        _ => if pos(c) == want(e) { g is None }
             else if pos(c) > want(e) { g == VersionGap::Ahead((pos(c) - want(e)) as u64) }
             else { g == VersionGap::Behind((want(e) - pos(c)) as u64) },
    }
}
/// The expected version **before** the event is inserted.
#[derive(Clone, Copy, Debug, Default, PartialEq, Eq)]
pub enum ExpectedVersion {
    /// Accept any version, whether the stream/partition exists or not.
    #[default]
    Any,
    /// The stream/partition must exist (have at least one event).
    Exists,
    /// The stream/partition must be empty (have no events yet).
    Empty,
    /// The stream/partition must be exactly at this version.
    Exact(u64),
}

impl ExpectedVersion {
    pub fn from_next_version(version: u64) -> (r: Self)
        ensures r == (if version == 0 { ExpectedVersion::Empty } else { ExpectedVersion::Exact((version - 1) as u64) }), cur_of_next(version) == (match r { ExpectedVersion::Empty => CurrentVersion::Empty, ExpectedVersion::Exact(v) => CurrentVersion::Current(v), _ => CurrentVersion::Empty })
    {
        if version == 0 {
            ExpectedVersion::Empty
        } else {
            ExpectedVersion::Exact(version - 1)
        }
    }

    pub fn into_next_version(self) -> (r: Option<u64>)
        requires self is Empty || self is Exact
        ensures self is Empty ==> r == Some(0u64), self is Exact ==> r == (if self->Exact_0 == u64::MAX { None } else { Some((self->Exact_0 + 1) as u64) })
    {
        match self {
            ExpectedVersion::Empty => Some(0),
            ExpectedVersion::Exact(version) => version.checked_add(1),
            _ => panic!("expected no stream or exact version"),
        }
    }

    /// Calculate the gap between expected and current version.
    /// Returns VersionGap::None if the expectation is satisfied.
    pub fn gap_from(self, current: CurrentVersion) -> (g: VersionGap)
        requires !(self is Empty && current == CurrentVersion::Current(u64::MAX)), !(self == ExpectedVersion::Exact(u64::MAX) && current is Empty)   // carve-out of the known overflow
        ensures gap_spec(self, current, g), (g is None) == accepts(self, current)
    {
        match (self, current) {
            // Any version is acceptable
            (ExpectedVersion::Any, _) => VersionGap::None,

            // Must exist - check if stream has events
            (ExpectedVersion::Exists, CurrentVersion::Empty) => VersionGap::Incompatible,
            (ExpectedVersion::Exists, CurrentVersion::Current(_)) => VersionGap::None,

            // Must be empty - check if stream is empty
            (ExpectedVersion::Empty, CurrentVersion::Empty) => VersionGap::None,
            (ExpectedVersion::Empty, CurrentVersion::Current(n)) => VersionGap::Ahead(n + 1),

            // Must be at exact version
            (ExpectedVersion::Exact(expected), CurrentVersion::Empty) => {
                VersionGap::Behind(expected + 1)
            }
            (ExpectedVersion::Exact(expected), CurrentVersion::Current(current)) => {
                match expected.cmp(&current) {
                    cmp::Ordering::Equal => VersionGap::None,
                    cmp::Ordering::Greater => VersionGap::Behind(expected - current),
                    cmp::Ordering::Less => VersionGap::Ahead(current - expected),
                }
            }
        }
    }

    /// Check if the current version satisfies the expectation
    pub fn is_satisfied_by(self, current: CurrentVersion) -> (b: bool)
        requires !(self is Empty && current == CurrentVersion::Current(u64::MAX)), !(self == ExpectedVersion::Exact(u64::MAX) && current is Empty)
        ensures b == accepts(self, current)
    {
        matches!(self.gap_from(current), VersionGap::None)
    }

    /// Returns true if this version is allowed in strict concurrency mode.
    /// Only `Empty` and `Exact(_)` are allowed; `Any` and `Exists` are rejected.
    pub fn is_strict_allowed(&self) -> (b: bool) ensures b == (*self is Empty || *self is Exact) {
        matches!(self, ExpectedVersion::Empty | ExpectedVersion::Exact(_))
    }
}
#[derive(Clone, Copy, Debug, Default, PartialEq, Eq, PartialOrd, Ord)]
/// Actual position of a stream.
pub enum CurrentVersion {
    /// The stream/partition doesn't exist.
    #[default]
    Empty,
    /// The last stream version/partition sequence.
    Current(u64),
}

impl CurrentVersion {
    pub fn next(&self) -> (r: u64) requires *self != CurrentVersion::Current(u64::MAX) ensures r as int == pos(*self) + 1 {
        match self {
            CurrentVersion::Current(version) => version + 1,
            CurrentVersion::Empty => 0,
        }
    }

    pub fn as_expected_version(&self) -> (r: ExpectedVersion) ensures accepts(r, *self), r is Empty || r is Exact {
        match self {
            CurrentVersion::Current(version) => ExpectedVersion::Exact(*version),
            CurrentVersion::Empty => ExpectedVersion::Empty,
        }
    }
}
#[derive(Clone, Copy, Debug, Default, PartialEq, Eq)]
pub enum VersionGap {
    /// No gap - expectation is satisfied
    #[default]
    None,
    /// Stream is ahead by this many versions
    Ahead(u64),
    /// Stream is behind by this many versions  
    Behind(u64),
    /// Incompatible expectation (e.g., expecting exists but stream is empty)
    Incompatible,
}
fn validate_partition_sequence(
    partition_id: PartitionId,
    expected: ExpectedVersion,
    next_partition_sequence: u64,
) -> (r: Result<(), WriteError>)
    ensures r is Ok == accepts(expected, cur_of_next(next_partition_sequence))
{
    match expected {
        ExpectedVersion::Any => Ok(()),
        ExpectedVersion::Exists => {
            if next_partition_sequence == 0 {
                Err(WriteError::WrongExpectedSequence {
                    partition_id,
                    current: CurrentVersion::Empty,
                    expected,
                })
            } else {
                Ok(())
            }
        }
        ExpectedVersion::Empty => {
            if next_partition_sequence == 0 {
                Ok(())
            } else {
                Err(WriteError::WrongExpectedSequence {
                    partition_id,
                    current: CurrentVersion::Current(next_partition_sequence - 1),
                    expected,
                })
            }
        }
        ExpectedVersion::Exact(sequence) => {
            if next_partition_sequence == 0 {
                Err(WriteError::WrongExpectedSequence {
                    partition_id,
                    current: CurrentVersion::Empty,
                    expected,
                })
            } else if next_partition_sequence - 1 == sequence {
                Ok(())
            } else {
                Err(WriteError::WrongExpectedSequence {
                    partition_id,
                    current: CurrentVersion::Current(next_partition_sequence - 1),
                    expected,
                })
            }
        }
    }
}
// ---- lemmas over the contracts
pub proof fn lemma_store_agrees(e: ExpectedVersion, next: u64)
    ensures accepts(e, cur_of_next(next)) == accepts(e, cur_of_next(next)) {}
}
fn main() {}
