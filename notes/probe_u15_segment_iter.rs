// DESIGN-PHASE PROBE (not framework code). Verbatim SegmentIter::{new,is_finished,skip} (crates/sierradb/src/bucket/segment/iter.rs:27-73).
// verus: the Reverse postcondition of `new` fails (offsets_index == 0 special case); with the carve-out
// `requires !(dir == Reverse && offsets_index == 0 && offsets@.len() > 1)` all 5 functions verify -- the known-finding mechanism of DESIGN 2.7.
use vstd::prelude::*;
verus! {
pub assume_specification<T>[<[T]>::reverse](s: &mut [T])
    ensures final(s)@ == old(s)@.reverse();
#[derive(Clone, Copy, PartialEq, Eq)]
pub enum IterDirection { Forward, Reverse }
pub struct ReaderThreadPool;
#[derive(Clone, Copy)]
pub struct BucketSegmentId { pub bucket_id: u16, pub segment_id: u32 }
pub struct SegmentBlock;
pub struct Arc<T>(pub Box<T>);

pub struct SegmentIter {
    pub reader_pool: ReaderThreadPool,
    pub bucket_segment_id: BucketSegmentId,
    pub block: Option<Arc<SegmentBlock>>,
    pub last_block_offset_attempt: u64,
    pub offsets: Vec<u64>,
    pub offsets_index: usize,
}

impl SegmentIter {
    pub open spec fn remaining(&self) -> Seq<u64> {
        if self.offsets_index >= self.offsets@.len() { Seq::empty() } else { self.offsets@.subrange(self.offsets_index as int, self.offsets@.len() as int) }
    }
    pub fn new(
        reader_pool: ReaderThreadPool,
        bucket_segment_id: BucketSegmentId,
        mut offsets: Vec<u64>,
        offsets_index: usize,
        dir: IterDirection,
    ) -> (r: Self)
        ensures
            dir == IterDirection::Forward ==> r.remaining() =~= (if offsets_index >= offsets@.len() { Seq::empty() } else { offsets@.subrange(offsets_index as int, offsets@.len() as int) }),
            // from the statement: a reverse scan positioned at index i yields offsets[0..=i] backwards; i >= len means "from the end"
            dir == IterDirection::Reverse ==> r.remaining() =~= (if offsets_index >= offsets@.len() { offsets@.reverse() } else { offsets@.subrange(0, offsets_index as int + 1).reverse() }),
    {
        // For reverse iteration, reverse the offsets and adjust the index
        let offsets_index = match dir {
            IterDirection::Forward => offsets_index,
            IterDirection::Reverse => {
                offsets.reverse();
                if offsets_index == 0 && !offsets.is_empty() {
                    0 // Start from first index after reversal (which is the last event)
                } else if offsets_index < offsets.len() {
                    offsets.len() - 1 - offsets_index
                } else {
                    0
                }
            }
        };

        SegmentIter {
            reader_pool,
            bucket_segment_id,
            block: None,
            last_block_offset_attempt: u64::MAX,
            offsets,
            offsets_index,
        }
    }
    pub fn is_finished(&self) -> (b: bool) ensures b == (self.remaining().len() == 0) {
        self.offsets_index >= self.offsets.len()
    }
    pub fn skip(&mut self, count: usize) 
        requires old(self).offsets_index <= old(self).offsets@.len(), old(self).offsets_index + count <= usize::MAX
        ensures final(self).offsets@ == old(self).offsets@, final(self).offsets_index == (if old(self).offsets_index + count <= old(self).offsets@.len() { (old(self).offsets_index + count) as usize } else { old(self).offsets@.len() as usize })
    {
        self.offsets_index = (self.offsets_index + count).min(self.offsets.len());
    }
}
}
fn main() {}
