// DESIGN-PHASE PROBE (not framework code). crates/sierradb/src/id.rs after R1 (clock + rng draws -> verif_any), real `uuid` crate.
// cargo kani: roundtrip_hash PASS (0.2 s), flag_preserves_everything_else PASS (0.3 s, all 2^128 ids x flag),
// bucket_helpers_agree FAILS (extract_event_id_bucket vs partition_id_to_bucket when B does not divide P).
#![allow(dead_code, unused)]
use uuid::Uuid;
pub type BucketId = u16; pub type PartitionHash = u16; pub type PartitionId = u16;
#[cfg(kani)] fn verif_any<T: kani::Arbitrary>() -> T { kani::any() }
#[cfg(not(kani))] fn verif_any<T: Default>() -> T { T::default() }
/// Returns a UUID “inspired” by v7, except that 16 bits from the stream-id hash
/// are embedded in it (bits 46–61 of the final 128-bit value).
///
/// Layout (from MSB to LSB):
/// - 48 bits: timestamp (ms since Unix epoch)
/// - 12 bits: random
/// - 4 bits: version (0x7)
/// - 2 bits: variant (binary 10)
/// - 16 bits: stream-id hash (lower 16 bits)
/// - 46 bits: random
pub fn uuid_v7_with_partition_hash(partition_hash: PartitionHash) -> Uuid {
    // Get current timestamp in milliseconds (48 bits)
    let timestamp_ms = verif_any::<u64>();
    let timestamp48 = timestamp_ms & 0xFFFFFFFFFFFF; // mask to 48 bits

        // 12 bits of randomness
    let rand12: u16 = verif_any::<u16>() & 0x0FFF;
    // 46 bits of randomness
    let rand46: u64 = verif_any::<u64>() & ((1u64 << 46) - 1);

    // Assemble our 128-bit value. Bit layout (MSB = bit 127):
    // [timestamp:48] [rand12:12] [version:4] [variant:2] [stream_hash:16]
    // [rand46:46]
    let uuid_u128: u128 = ((timestamp48 as u128) << 80) // bits 127..80: timestamp (48 bits)
        | ((rand12 as u128) << 68)      // bits 79..68: 12-bit random
        | (0x7u128 << 64)               // bits 67..64: version (4 bits, value 7)
        | (0x2u128 << 62)               // bits 63..62: variant (2 bits, binary 10)
        | ((partition_hash as u128) << 46) // bits 61..46: stream-id hash (16 bits)
        | (rand46 as u128); // bits 45..0: 46-bit random

    // Convert the u128 into a big-endian 16-byte array and create a UUID.
    Uuid::from_bytes(uuid_u128.to_be_bytes())
}

/// Extracts the embedded 16-bit hash from a UUID.
pub fn uuid_to_partition_hash(uuid: Uuid) -> PartitionHash {
    let uuid_u128 = u128::from_be_bytes(uuid.into_bytes());
    ((uuid_u128 >> 46) & 0xFFFF) as u16
}

pub fn extract_event_id_bucket(uuid: Uuid, num_buckets: u16) -> BucketId {
    if num_buckets == 1 {
        return 0;
    }

    uuid_to_partition_hash(uuid) % num_buckets
}

pub fn partition_id_to_bucket(partition_id: PartitionId, num_buckets: u16) -> BucketId {
    if num_buckets == 1 {
        return 0;
    }

    partition_id % num_buckets
}

pub fn validate_event_id(event_id: Uuid, partition_hash: PartitionHash) -> bool {
    uuid_to_partition_hash(event_id) == partition_hash
}

pub fn set_uuid_flag(uuid: Uuid, flag: bool) -> Uuid {
    // Convert UUID to bytes
    let mut bytes = *uuid.as_bytes();

    // Bit 65 is the first bit of the 9th byte (index 8)
    if flag {
        // Set the bit (ensure it's 1)
        bytes[8] |= 0b10000000;
    } else {
        // Clear the bit (ensure it's 0)
        bytes[8] &= 0b01111111;
    }

    // Create a new UUID from the modified bytes
    Uuid::from_bytes(bytes)
}

pub fn get_uuid_flag(uuid: &Uuid) -> bool {
    // Get the bytes of the UUID
    let bytes = uuid.as_bytes();

    // Check if bit 65 (first bit of byte 8) is set
    (bytes[8] & 0b10000000) != 0
}


#[cfg(kani)]
mod harness {
    use super::*;
    #[kani::proof]
    fn roundtrip_hash() {
        let h: u16 = kani::any();
        let id = uuid_v7_with_partition_hash(h);
        assert!(uuid_to_partition_hash(id) == h);
        assert!(validate_event_id(id, h));
        let b = id.as_bytes();
        assert!(b[7] & 0x0f == 7);        // bits 67..64 as documented in id.rs
        assert!(b[8] >> 6 == 0b10);       // variant
    }
    #[kani::proof]
    fn flag_preserves_everything_else() {
        let bytes: [u8; 16] = kani::any();
        let u = Uuid::from_bytes(bytes);
        let f: bool = kani::any();
        let r = set_uuid_flag(u, f);
        assert!(get_uuid_flag(&r) == f);
        assert!(uuid_to_partition_hash(r) == uuid_to_partition_hash(u));
        let rb = r.as_bytes();
        let mut i = 0; while i < 16 { if i != 8 { assert!(rb[i] == bytes[i]); } i += 1; }
        assert!(rb[8] & 0x7f == bytes[8] & 0x7f);
    }
    #[kani::proof]
    fn bucket_helpers_agree() {
        let bytes: [u8; 16] = kani::any();
        let u = Uuid::from_bytes(bytes);
        let p: u16 = kani::any(); let b: u16 = kani::any();
        kani::assume(p > 0 && b > 0 && b <= p);
        assert!(extract_event_id_bucket(u, b) == partition_id_to_bucket(uuid_to_partition_hash(u) % p, b));
    }
}
