//! RESP-level replay driver (C22): a REAL single-node server (Database + ClusterActor + Server on a loopback port), driven by a
//! command script from the documented grammar; every reply is compared with a reference event-store model.
//! A case = {"cmds": [ ["EMAPPEND", [[stream, expected], ...]] | ["EAPPEND", stream, expected, ts_ms|null] ]} where `expected` is
//! "any" | "empty" | "exists" | "<n>" | "right" (the version the model prescribes). After the script every stream is read back.
use bytes::BytesMut;
use kameo::actor::Spawn;
use libp2p::identity::Keypair;
use redis_protocol::resp3::decode::complete::decode_bytes_mut;
use redis_protocol::resp3::types::BytesFrame;
use replay_common::*;
use serde_json::{json, Value};
use sierradb::database::DatabaseBuilder;
use sierradb_cluster::{ClusterActor, ClusterArgs};
use sierradb_server::server::Server;
use std::collections::{BTreeMap, HashSet};
use std::sync::Arc;
use std::time::Duration;
use tokio::io::{AsyncReadExt, AsyncWriteExt};
use tokio::net::TcpStream;
use tokio_util::sync::CancellationToken;

const PARTITIONS: u16 = 16;
const PK: &str = "550e8400-e29b-41d4-a716-446655440000";

struct Client { stream: TcpStream, buf: BytesMut }
impl Client {
    async fn connect(addr: &str) -> Option<Client> {
        for _ in 0..200 {
            if let Ok(stream) = TcpStream::connect(addr).await { let _ = stream.set_nodelay(true); return Some(Client { stream, buf: BytesMut::new() }); }
            tokio::time::sleep(Duration::from_millis(25)).await;
        }
        None
    }
    async fn cmd(&mut self, args: &[String]) -> Result<BytesFrame, String> {
        let mut out = format!("*{}\r\n", args.len()).into_bytes();
        for a in args { out.extend_from_slice(format!("${}\r\n", a.len()).as_bytes()); out.extend_from_slice(a.as_bytes()); out.extend_from_slice(b"\r\n"); }
        self.stream.write_all(&out).await.map_err(|e| format!("connection lost while sending {args:?}: {e}"))?;
        loop {
            match decode_bytes_mut(&mut self.buf) { Ok(Some((f, _, _))) => return Ok(f), Ok(None) => {}, Err(e) => return Err(format!("invalid RESP3 reply to {args:?}: {e:?}")) }
            match tokio::time::timeout(Duration::from_secs(20), self.stream.read_buf(&mut self.buf)).await {
                Err(_) => return Err(format!("no reply to {args:?} within 20 s")),
                Ok(Err(e)) => return Err(format!("connection error waiting for the reply to {args:?}: {e}")),
                Ok(Ok(0)) => return Err(format!("CONNECTION CLOSED by the server while answering {args:?} (crashed connection)")),
                Ok(Ok(_)) => {}
            }
        }
    }
}
fn text(f: &BytesFrame) -> Option<String> { match f { BytesFrame::SimpleString { data, .. } | BytesFrame::BlobString { data, .. } => String::from_utf8(data.to_vec()).ok(), _ => None } }
fn field<'a>(f: &'a BytesFrame, key: &str) -> Option<&'a BytesFrame> { match f { BytesFrame::Map { data, .. } => data.iter().find(|(k, _)| text(k).as_deref() == Some(key)).map(|(_, v)| v), _ => None } }
fn int(f: &BytesFrame) -> Option<i64> { match f { BytesFrame::Number { data, .. } => Some(*data), _ => None } }
fn list(f: &BytesFrame) -> Option<&[BytesFrame]> { match f { BytesFrame::Array { data, .. } => Some(data), _ => None } }
fn is_error(f: &BytesFrame) -> bool { matches!(f, BytesFrame::SimpleError { .. } | BytesFrame::BlobError { .. }) }

#[derive(Clone, Debug)]
enum Cmd { EAppend { stream: u8, expected: String, ts: Option<u64> }, EMAppend { events: Vec<(u8, String)> } }

/// model verdict for one expectation against a stream's event count
fn holds(expected: &str, count: u64) -> bool {
    match expected { "any" | "right" => true, "empty" => count == 0, "exists" => count > 0, n => n.parse::<u64>().map(|v| count > 0 && v == count - 1).unwrap_or(false) }
}
fn render(expected: &str, count: u64) -> String { if expected == "right" { if count == 0 { "empty".into() } else { (count - 1).to_string() } } else { expected.to_string() } }

async fn run_case_async(cmds: &[Cmd]) -> Option<String> {
    let dir = tempfile::tempdir().ok()?;
    let database = DatabaseBuilder::new().total_buckets(2).bucket_ids_from_range(0..2).open(dir.path()).ok()?;
    let caches = database.reader_pool().caches().clone();
    let cluster_ref = ClusterActor::spawn(ClusterArgs { keypair: Keypair::generate_ed25519(), database: database.clone(), listen_addrs: vec![], node_count: 1, node_index: 0,
        bucket_count: 2, partition_count: PARTITIONS, replication_factor: 1, assigned_partitions: HashSet::from_iter(0..PARTITIONS), heartbeat_timeout: Duration::from_millis(1_000),
        heartbeat_interval: Duration::from_millis(6_000), replication_buffer_size: 1_000, replication_buffer_timeout: Duration::from_millis(8_000), replication_catchup_timeout: Duration::from_millis(2_000), mdns: false });
    let port = { let p = std::net::TcpListener::bind("127.0.0.1:0").ok()?; p.local_addr().ok()?.port() };
    let addr = format!("127.0.0.1:{port}");
    let shutdown = CancellationToken::new();
    let server = tokio::spawn(Server::new(cluster_ref, Arc::clone(&caches), PARTITIONS, 1 << 20, false, shutdown.clone()).listen(addr.clone()));
    let mut c = match Client::connect(&addr).await { Some(c) => c, None => return Some("the server did not come up".into()) };
    let verdict = script(&mut c, cmds).await;
    shutdown.cancel();
    let _ = tokio::time::timeout(Duration::from_secs(5), server).await;
    database.shutdown().await;
    verdict
}

async fn script(c: &mut Client, cmds: &[Cmd]) -> Option<String> {
    let mut streams: BTreeMap<u8, u64> = BTreeMap::new(); // stream -> event count
    let mut total: u64 = 0;
    let mut pid: Option<i64> = None;
    let s = |x: &str| x.to_string();
    for (i, cmd) in cmds.iter().enumerate() {
        match cmd {
            Cmd::EAppend { stream, expected, ts } => {
                let count = *streams.get(stream).unwrap_or(&0);
                let mut args = vec![s("EAPPEND"), format!("s{stream}"), s("Evt"), s("PARTITION_KEY"), s(PK), s("EXPECTED_VERSION"), render(expected, count)];
                if let Some(t) = ts { args.push(s("TIMESTAMP")); args.push(t.to_string()); }
                let r = match c.cmd(&args).await { Ok(r) => r, Err(e) => return Some(format!("command {i}: {e}")) };
                let ts_ok = ts.map(|t| t <= u64::MAX / 1_000_000 && t * 1_000_000 < (1u64 << 63)).unwrap_or(true);
                let accept = holds(expected, count) && ts_ok;
                if is_error(&r) { if accept { return Some(format!("command {i} {args:?}: the model accepts this append, the server answered {r:?}")); } continue; }
                if !accept { return Some(format!("command {i} {args:?}: the model rejects this append, the server accepted it: {r:?}")); }
                let (sv, ps) = (field(&r, "stream_version").and_then(int), field(&r, "partition_sequence").and_then(int));
                if sv != Some(count as i64) || ps != Some(total as i64) { return Some(format!("command {i} {args:?}: reply reports stream_version {sv:?} / partition_sequence {ps:?}, the model prescribes {count} / {total}")); }
                if let Some(t) = ts { if field(&r, "timestamp").and_then(int) != Some(*t as i64) { return Some(format!("command {i}: reply timestamp {:?} != the millisecond timestamp sent {t}", field(&r, "timestamp").and_then(int))); } }
                pid = field(&r, "partition_id").and_then(int);
                streams.insert(*stream, count + 1); total += 1;
            }
            Cmd::EMAppend { events } => {
                let mut args = vec![s("EMAPPEND"), s(PK)];
                let mut tmp = streams.clone();
                let mut accept = true;
                let mut want: Vec<(u8, u64)> = vec![];
                for (stream, expected) in events {
                    let count = *tmp.get(stream).unwrap_or(&0);
                    args.extend([format!("s{stream}"), s("Evt"), s("EXPECTED_VERSION"), render(expected, count)]);
                    if !holds(expected, count) { accept = false; }
                    want.push((*stream, count));
                    tmp.insert(*stream, count + 1);
                }
                let r = match c.cmd(&args).await { Ok(r) => r, Err(e) => return Some(format!("command {i}: {e}")) };
                if is_error(&r) { if accept { return Some(format!("command {i} {args:?}: the model accepts this transaction, the server answered {r:?}")); } continue; }
                if !accept { return Some(format!("command {i} {args:?}: the model rejects this transaction, the server accepted it")); }
                let evs = match field(&r, "events").and_then(list) { Some(e) => e, None => return Some(format!("command {i}: EMAPPEND reply without an events list: {r:?}")) };
                let got: Vec<(Option<String>, Option<i64>)> = evs.iter().map(|e| (field(e, "stream_id").and_then(text), field(e, "stream_version").and_then(int))).collect();
                let exp: Vec<(Option<String>, Option<i64>)> = want.iter().map(|(st, v)| (Some(format!("s{st}")), Some(*v as i64))).collect();
                if got != exp { return Some(format!("command {i} {args:?}: EMAPPEND reports per-event (stream, version) {got:?}, the model prescribes {exp:?}")); }
                let (f, l) = (field(&r, "first_partition_sequence").and_then(int), field(&r, "last_partition_sequence").and_then(int));
                if f != Some(total as i64) || l != Some((total + events.len() as u64 - 1) as i64) { return Some(format!("command {i}: EMAPPEND reports sequences {f:?}..{l:?}, the model prescribes {}..{}", total, total + events.len() as u64 - 1)); }
                pid = field(&r, "partition_id").and_then(int);
                streams = tmp; total += events.len() as u64;
            }
        }
    }
    // read everything back (single node, rf 1: confirmed as soon as acknowledged; allow the confirmation a moment)
    for (stream, count) in streams.iter() {
        let mut last = String::new();
        let mut ok = false;
        for _ in 0..100 {
            let r = match c.cmd(&[s("ESCAN"), format!("s{stream}"), s("-"), s("+"), s("PARTITION_KEY"), s(PK)]).await { Ok(r) => r, Err(e) => return Some(e) };
            let got: Vec<i64> = field(&r, "events").and_then(list).map(|l| l.iter().filter_map(|e| field(e, "stream_version").and_then(int)).collect()).unwrap_or_default();
            let has_more = match field(&r, "has_more") { Some(BytesFrame::Boolean { data, .. }) => *data, _ => false };
            last = format!("{got:?} has_more={has_more}");
            if got == (0..*count as i64).collect::<Vec<_>>() { ok = true; break; }
            tokio::time::sleep(Duration::from_millis(20)).await;
        }
        if !ok { return Some(format!("ESCAN s{stream} - + returned versions {last}, the model has 0..{count}")); }
        let v = match c.cmd(&[s("ESVER"), format!("s{stream}"), s("PARTITION_KEY"), s(PK)]).await { Ok(r) => r, Err(e) => return Some(e) };
        if int(&v) != Some(*count as i64 - 1) { return Some(format!("ESVER s{stream} returned {v:?}, the model's latest version is {}", count - 1)); }
        // a bounded scan: COUNT 1 from 0 must report has_more iff more events exist
        let r = match c.cmd(&[s("ESCAN"), format!("s{stream}"), s("0"), s("+"), s("PARTITION_KEY"), s(PK), s("COUNT"), s("1")]).await { Ok(r) => r, Err(e) => return Some(e) };
        let n = field(&r, "events").and_then(list).map(|l| l.len()).unwrap_or(0);
        let has_more = match field(&r, "has_more") { Some(BytesFrame::Boolean { data, .. }) => *data, _ => false };
        // the property only demands that has_more never HIDES existing events (a spurious `true` costs one more round trip)
        if n != 1 || (!has_more && *count > 1) { return Some(format!("ESCAN s{stream} 0 + COUNT 1 returned {n} events, has_more={has_more}; the stream has {count} events")); }
        // COUNT 0: an empty page; has_more must still not hide the stream's events
        let r = match c.cmd(&[s("ESCAN"), format!("s{stream}"), s("-"), s("+"), s("PARTITION_KEY"), s(PK), s("COUNT"), s("0")]).await { Ok(r) => r, Err(e) => return Some(e) };
        let n0 = field(&r, "events").and_then(list).map(|l| l.len()).unwrap_or(usize::MAX);
        let has_more0 = match field(&r, "has_more") { Some(BytesFrame::Boolean { data, .. }) => *data, _ => false };
        if !is_error(&r) && (n0 != 0 || (!has_more0 && *count > 0)) { return Some(format!("ESCAN s{stream} - + COUNT 0 returned {n0} events, has_more={has_more0}; the stream has {count} events (has_more hides them)")); }
    }
    if let Some(p) = pid {
        let r = match c.cmd(&[s("EPSCAN"), p.to_string(), s("-"), s("+"), s("COUNT"), s("1000")]).await { Ok(r) => r, Err(e) => return Some(e) };
        let got: Vec<i64> = field(&r, "events").and_then(list).map(|l| l.iter().filter_map(|e| field(e, "partition_sequence").and_then(int)).collect()).unwrap_or_default();
        if got != (0..total as i64).collect::<Vec<_>>() { return Some(format!("EPSCAN {p} - + returned sequences {got:?}, the model has 0..{total}")); }
        let r0 = match c.cmd(&[s("EPSCAN"), p.to_string(), s("-"), s("+"), s("COUNT"), s("0")]).await { Ok(r) => r, Err(e) => return Some(e) };
        let n0 = field(&r0, "events").and_then(list).map(|l| l.len()).unwrap_or(usize::MAX);
        let has_more0 = match field(&r0, "has_more") { Some(BytesFrame::Boolean { data, .. }) => *data, _ => false };
        if !is_error(&r0) && (n0 != 0 || (!has_more0 && total > 0)) { return Some(format!("EPSCAN {p} - + COUNT 0 returned {n0} events, has_more={has_more0}; the partition has {total} events (has_more hides them)")); }
        let q = match c.cmd(&[s("EPSEQ"), p.to_string()]).await { Ok(r) => r, Err(e) => return Some(e) };
        if int(&q) != Some(total as i64 - 1) { return Some(format!("EPSEQ {p} returned {q:?}, the model's latest sequence is {}", total as i64 - 1)); }
        let k = match c.cmd(&[s("EPSEQ"), s(PK)]).await { Ok(r) => r, Err(e) => return Some(e) };
        if int(&k) != Some(total as i64 - 1) { return Some(format!("EPSEQ <partition key> returned {k:?}, by id it is {}", total as i64 - 1)); }
    }
    None
}

fn run_case(cmds: &[Cmd]) -> Option<String> {
    let rt = tokio::runtime::Builder::new_multi_thread().worker_threads(4).enable_all().build().ok()?;
    let r = rt.block_on(async { tokio::time::timeout(Duration::from_secs(120), run_case_async(cmds)).await });
    rt.shutdown_background();
    match r { Ok(x) => x, Err(_) => Some("the server did not finish the script within 120 s".to_string()) }
}
fn to_json(cmds: &[Cmd]) -> Value {
    json!({"cmds": cmds.iter().map(|c| match c { Cmd::EAppend { stream, expected, ts } => json!(["EAPPEND", stream, expected, ts]), Cmd::EMAppend { events } => json!(["EMAPPEND", events.iter().map(|(s, e)| json!([s, e])).collect::<Vec<_>>()]) }).collect::<Vec<_>>()})
}
fn from_json(v: &Value) -> Option<Vec<Cmd>> {
    v["cmds"].as_array()?.iter().map(|c| {
        if c[0] == "EAPPEND" { Some(Cmd::EAppend { stream: c[1].as_u64()? as u8, expected: c[2].as_str()?.to_string(), ts: c[3].as_u64() }) }
        else { Some(Cmd::EMAppend { events: c[1].as_array()?.iter().map(|e| Some((e[0].as_u64()? as u8, e[1].as_str()?.to_string()))).collect::<Option<Vec<_>>>()? }) }
    }).collect()
}
fn search(_item: &str, seed: u64, _hint: &Value) -> Option<(Value, String)> {
    let mut rng = Rng::new(seed);
    let r = |x: &str| x.to_string();
    let mut cases: Vec<Vec<Cmd>> = vec![
        vec![Cmd::EMAppend { events: vec![(0, r("empty"))] }],
        vec![Cmd::EMAppend { events: vec![(0, r("right")), (1, r("right")), (0, r("right"))] }, Cmd::EMAppend { events: vec![(0, r("right")), (1, r("right")), (0, r("right")), (1, r("right"))] }],
        vec![Cmd::EAppend { stream: 0, expected: r("empty"), ts: Some(1_700_000_000_000) }, Cmd::EAppend { stream: 0, expected: r("0"), ts: None }, Cmd::EAppend { stream: 0, expected: r("empty"), ts: None }, Cmd::EAppend { stream: 1, expected: r("exists"), ts: None }],
        vec![Cmd::EAppend { stream: 0, expected: r("any"), ts: Some(u64::MAX) }, Cmd::EAppend { stream: 0, expected: r("any"), ts: Some(18_446_744_073_710) }, Cmd::EAppend { stream: 0, expected: r("any"), ts: Some(0) }],
        vec![Cmd::EMAppend { events: vec![(0, r("right")), (0, r("right")), (1, r("5"))] }, Cmd::EAppend { stream: 0, expected: r("empty"), ts: None }],
    ];
    for _ in 0..5 {
        let n = 1 + rng.below(4) as usize;
        cases.push((0..n).map(|_| if rng.below(2) == 0 { Cmd::EAppend { stream: rng.below(2) as u8, expected: r(rng.pick(&["right", "any", "empty", "0", "exists"])), ts: if rng.below(3) == 0 { Some(rng.pick(&[0u64, 1, 1_700_000_000_000])) } else { None } } }
            else { Cmd::EMAppend { events: (0..1 + rng.below(3)).map(|_| (rng.below(2) as u8, r(rng.pick(&["right", "right", "any", "empty"])))).collect() } }).collect());
    }
    for c in cases { let j = to_json(&c); if let Some(d) = run_isolated("RESP", "x", &j) { return Some((j, d)); } }
    None
}
fn run(_item: &str, input: &Value) -> Option<String> { run_case(&from_json(input)?) }
fn main() { main_with(&[Driver { name: "RESP", search, run }]); }
