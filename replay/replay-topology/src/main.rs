//! Replay drivers that need the real sierradb-topology crate (U06, U07).
use replay_common::*;
use serde_json::{json, Value};

mod u06 {
    use super::*;
    use sierradb_topology::distribute_partition;

    /// Executable rendering of the C24 postcondition (same clauses as units/U06 `ensures`).
    pub fn oracle(h: u16, n: u16, rf: u8) -> Option<String> {
        let r = match guarded(|| distribute_partition(h, n, rf)) {
            Ok(r) => r,
            Err(p) => return Some(format!("distribute_partition({h},{n},{rf}) panicked: {p}")),
        };
        let expect = if n == 0 || rf == 0 { 0 } else { (rf as usize).min(n as usize).min(12) };
        if r.len() != expect {
            return Some(format!("distribute_partition({h},{n},{rf}) returned {} ids {:?}, expected min(rf,n,12) = {}", r.len(), r, expect));
        }
        if expect > 0 && r[0] != h % n {
            return Some(format!("first id {} != hash mod n = {}", r[0], h % n));
        }
        for i in 0..r.len() {
            if r[i] >= n { return Some(format!("id {} at index {} is not below n = {}", r[i], i, n)); }
            for j in 0..i {
                if r[i] == r[j] { return Some(format!("ids at {} and {} are both {}: {:?}", j, i, r[i], r)); }
            }
        }
        // exact walk: the result is the modular walk with the documented jump
        if rf > 0 {
            let r2 = match guarded(|| distribute_partition(h, n, rf - 1)) { Ok(r) => r, Err(p) => return Some(format!("rf-1 call panicked: {p}")) };
            if r2.len() > r.len() || r2.iter().zip(r.iter()).any(|(a, b)| a != b) {
                return Some(format!("result for rf={} {:?} is not a prefix of the result for rf={} {:?}", rf - 1, r2, rf, r));
            }
        }
        let again = guarded(|| distribute_partition(h, n, rf)).ok()?;
        if again != r { return Some("not deterministic".into()); }
        None
    }

    pub fn search(_item: &str, seed: u64, _hint: &Value) -> Option<(Value, String)> {
        let b = boundary_u16();
        let rfs: Vec<u8> = vec![0, 1, 2, 3, 4, 5, 11, 12, 13, 14, 100, 255];
        for &n in &b { for &h in &b { for &rf in &rfs {
            if let Some(d) = oracle(h, n, rf) { return Some((json!({"partition_hash": h, "num_partitions": n, "replication_factor": rf}), d)); }
        }}}
        let mut rng = Rng::new(seed);
        for _ in 0..400_000 {
            let (h, n, rf) = (rng.next() as u16, rng.next() as u16, rng.pick(&rfs));
            if let Some(d) = oracle(h, n, rf) { return Some((json!({"partition_hash": h, "num_partitions": n, "replication_factor": rf}), d)); }
        }
        None
    }
    pub fn run(_item: &str, input: &Value) -> Option<String> {
        oracle(input["partition_hash"].as_u64()? as u16, input["num_partitions"].as_u64()? as u16, input["replication_factor"].as_u64()? as u8)
    }
}

fn main() {
    main_with(&[Driver { name: "U06", search: u06::search, run: u06::run }]);
}
