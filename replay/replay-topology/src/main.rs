//! Replay drivers that need the real sierradb-topology crate (U06, U07).
use replay_common::*;
use serde_json::{json, Value};

mod u06 {
    use super::*;
    use sierradb_topology::distribute_partition;

    /// Executable rendering of the C24 postcondition (same clauses as units/U06 `ensures`).
    pub fn oracle(h: u16, n: u16, rf: u8) -> Option<String> {
        let r = match guarded(|| distribute_partition(h, n, rf)) {
            Ok(r) => r,
            Err(p) => return Some(format!("distribute_partition({h},{n},{rf}) panicked: {p}")),
        };
        let expect = if n == 0 || rf == 0 { 0 } else { (rf as usize).min(n as usize).min(12) };
        if r.len() != expect {
            return Some(format!("distribute_partition({h},{n},{rf}) returned {} ids {:?}, expected min(rf,n,12) = {}", r.len(), r, expect));
        }
        if expect > 0 && r[0] != h % n {
            return Some(format!("first id {} != hash mod n = {}", r[0], h % n));
        }
        for i in 0..r.len() {
            if r[i] >= n { return Some(format!("id {} at index {} is not below n = {}", r[i], i, n)); }
            for j in 0..i {
                if r[i] == r[j] { return Some(format!("ids at {} and {} are both {}: {:?}", j, i, r[i], r)); }
            }
        }
        // exact walk: the result is the modular walk with the documented jump
        if rf > 0 {
            let r2 = match guarded(|| distribute_partition(h, n, rf - 1)) { Ok(r) => r, Err(p) => return Some(format!("rf-1 call panicked: {p}")) };
            if r2.len() > r.len() || r2.iter().zip(r.iter()).any(|(a, b)| a != b) {
                return Some(format!("result for rf={} {:?} is not a prefix of the result for rf={} {:?}", rf - 1, r2, rf, r));
            }
        }
        let again = guarded(|| distribute_partition(h, n, rf)).ok()?;
        if again != r { return Some("not deterministic".into()); }
        None
    }

    pub fn search(_item: &str, seed: u64, _hint: &Value) -> Option<(Value, String)> {
        let b = boundary_u16();
        let rfs: Vec<u8> = vec![0, 1, 2, 3, 4, 5, 11, 12, 13, 14, 100, 255];
        for &n in &b { for &h in &b { for &rf in &rfs {
            if let Some(d) = oracle(h, n, rf) { return Some((json!({"partition_hash": h, "num_partitions": n, "replication_factor": rf}), d)); }
        }}}
        let mut rng = Rng::new(seed);
        for _ in 0..400_000 {
            let (h, n, rf) = (rng.next() as u16, rng.next() as u16, rng.pick(&rfs));
            if let Some(d) = oracle(h, n, rf) { return Some((json!({"partition_hash": h, "num_partitions": n, "replication_factor": rf}), d)); }
        }
        None
    }
    pub fn run(_item: &str, input: &Value) -> Option<String> {
        oracle(input["partition_hash"].as_u64()? as u16, input["num_partitions"].as_u64()? as u16, input["replication_factor"].as_u64()? as u8)
    }
}

mod u07 {
    use super::*;
    use kameo::actor::ActorId;
    use sierradb_topology::verif_hooks::{calculate_assigned_partitions, calculate_partition_replicas};
    use std::collections::HashMap;

    /// Executable rendering of the U07 contracts: replica_nodes(b, N, rf) = { (b % N + k) % N | k < min(rf, N) }.
    pub fn oracle(n: usize, b: u16, parts: u16, rf: u8, known_mask: u64) -> Option<String> {
        let eff = (rf as usize).min(n);
        let mut known: HashMap<usize, ActorId> = HashMap::new();
        for i in 0..n.min(64) { if known_mask >> i & 1 == 1 { known.insert(i, ActorId::new(i as u64)); } }
        // a few far-away known nodes for large clusters
        if n > 64 && known_mask & 1 == 1 { known.insert(n - 1, ActorId::new((n - 1) as u64)); }
        let all_known = (0..n).all(|i| known.contains_key(&i));
        for p in 0..parts {
            let primary = (p % b) as usize % n;
            let expect: Vec<u64> = (0..eff).map(|k| (primary + k) % n).filter(|i| known.contains_key(i)).map(|i| i as u64).collect();
            let r = match guarded(|| calculate_partition_replicas::<ActorId>(p, b, n, rf, &known)) { Ok(r) => r, Err(e) => return Some(format!("calculate_partition_replicas({p},{b},{n},{rf}) panicked: {e}")) };
            let got: Vec<u64> = r.iter().map(|a| a.sequence_id()).collect();
            if got != expect { return Some(format!("calculate_partition_replicas(partition {p}, buckets {b}, N {n}, rf {rf}, known {:?}) = {got:?}, expected the known members of the replica set in offset order {expect:?}", { let mut k: Vec<_> = known.keys().copied().collect(); k.sort(); k })); }
            if all_known && got.len() != eff { return Some(format!("partition {p}: {} replicas, expected min(rf, N) = {eff}", got.len())); }
        }
        for node in (0..n.min(6)).chain(if n > 6 { vec![n - 1] } else { vec![] }) {
            let owned = match guarded(|| calculate_assigned_partitions::<ActorId>(node, n, parts, b, rf)) { Ok(r) => r, Err(e) => return Some(format!("calculate_assigned_partitions({node},{n},{parts},{b},{rf}) panicked: {e}")) };
            for p in 0..parts {
                let primary = (p % b) as usize % n;
                let in_set = (0..eff).any(|k| (primary + k) % n == node);
                if owned.contains(&p) != in_set { return Some(format!("N {n}, buckets {b}, partitions {parts}, rf {rf}: node {node} {} partition {p} but {} in its replica set", if owned.contains(&p) { "owns" } else { "does not own" }, if in_set { "is" } else { "is not" })); }
            }
            if owned.iter().any(|p| *p >= parts) { return Some(format!("node {node} owns a partition id >= {parts}")); }
        }
        None
    }

    pub fn search(_item: &str, seed: u64, _hint: &Value) -> Option<(Value, String)> {
        let mk = |n: usize, b: u16, parts: u16, rf: u8, m: u64| json!({"n": n, "buckets": b, "partitions": parts, "rf": rf, "known_mask": m});
        for n in 1..=5usize { for b in 1..=6u16 { for parts in [b, b + 1, 2 * b + 1, 8.max(b)] { for rf in 1..=5u8 { for m in [u64::MAX, 0b101, 0b110, 1] {
            if let Some(d) = oracle(n, b, parts, rf, m) { return Some((mk(n, b, parts, rf, m), d)); }
        }}}}}
        for n in [12usize, 13, 255, 256, 257, 300, 1000, 65535, 65536, 70000] { for b in [1u16, 3, 7, 64] { for rf in [1u8, 2, 3, 12] { for m in [u64::MAX, 0b1011] {
            if let Some(d) = oracle(n, b, 2 * b + 1, rf, m) { return Some((mk(n, b, 2 * b + 1, rf, m), d)); }
        }}}}
        let mut rng = Rng::new(seed);
        for _ in 0..20_000 {
            let n = 1 + rng.below(40) as usize; let b = 1 + rng.below(20) as u16; let parts = b + rng.below(30) as u16; let rf = 1 + rng.below(12) as u8; let m = rng.next();
            if let Some(d) = oracle(n, b, parts, rf, m) { return Some((mk(n, b, parts, rf, m), d)); }
        }
        None
    }
    pub fn run(_item: &str, input: &Value) -> Option<String> {
        oracle(input["n"].as_u64()? as usize, input["buckets"].as_u64()? as u16, input["partitions"].as_u64()? as u16, input["rf"].as_u64()? as u8, input["known_mask"].as_u64()?)
    }
}

fn main() {
    main_with(&[Driver { name: "U06", search: u06::search, run: u06::run }, Driver { name: "U07", search: u07::search, run: u07::run }]);
}
