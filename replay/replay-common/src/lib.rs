//! Shared plumbing of the replay drivers: argument protocol, deterministic RNG, boundary values,
//! panic capture. A driver implements `search(item, seed, hint)` and `run(item, input)`.
use serde_json::{json, Value};
use std::panic::{catch_unwind, AssertUnwindSafe};

pub struct Rng(pub u64);
impl Rng {
    pub fn new(seed: u64) -> Self { Rng(seed.wrapping_mul(0x9E3779B97F4A7C15) ^ 0xD1B54A32D192ED03) }
    pub fn next(&mut self) -> u64 {
        // splitmix64
        self.0 = self.0.wrapping_add(0x9E3779B97F4A7C15);
        let mut z = self.0;
        z = (z ^ (z >> 30)).wrapping_mul(0xBF58476D1CE4E5B9);
        z = (z ^ (z >> 27)).wrapping_mul(0x94D049BB133111EB);
        z ^ (z >> 31)
    }
    pub fn below(&mut self, n: u64) -> u64 { if n == 0 { 0 } else { self.next() % n } }
    pub fn pick<T: Copy>(&mut self, v: &[T]) -> T { v[self.below(v.len() as u64) as usize] }
}

pub fn boundary_u64() -> Vec<u64> {
    let mut v = vec![0u64, 1, 2, 3, 4, 5, 7, 8, 9, 10, 11, 12, 13, 15, 16, 17, 31, 32, 33, 63, 64, 65, 100, 127, 128, 129, 255, 256, 257, 1000];
    for s in [15u32, 16, 31, 32, 33, 47, 48, 62, 63] {
        let p = 1u64 << s;
        v.extend([p - 1, p, p + 1]);
    }
    v.extend([u64::MAX - 2, u64::MAX - 1, u64::MAX]);
    v.sort(); v.dedup(); v
}
pub fn boundary_u16() -> Vec<u16> {
    let mut v: Vec<u16> = vec![0, 1, 2, 3, 4, 5, 6, 7, 8, 9, 10, 11, 12, 13, 14, 15, 16, 17, 31, 32, 33, 63, 64, 65, 100, 127, 128, 129, 255, 256, 257, 1000, 1023, 1024,
        21845, 21846, 32766, 32767, 32768, 32769, 43689, 43690, 43691, 43692, 50000, 63487, 65533, 65534, 65535];
    v.sort(); v.dedup(); v
}

/// Runs `f`, turning a panic into Err(message).
pub fn guarded<T>(f: impl FnOnce() -> T) -> Result<T, String> {
    let prev = std::panic::take_hook();
    std::panic::set_hook(Box::new(|_| {}));
    let r = catch_unwind(AssertUnwindSafe(f));
    std::panic::set_hook(prev);
    r.map_err(|e| {
        if let Some(s) = e.downcast_ref::<&str>() { s.to_string() }
        else if let Some(s) = e.downcast_ref::<String>() { s.clone() }
        else { "panic".to_string() }
    })
}

/// Open known findings (ids) whose input class the search must skip, so that a *different* violation is still found.
pub fn kf_open(id: &str) -> bool { std::env::var("VERIF_KF_OPEN").map(|v| v.split(',').any(|x| x == id)).unwrap_or(false) }

/// Runs one case in a fresh process (`<this binary> run <driver> <item> <input>`): a second ClusterActor in one process dies at
/// start-up (process-wide actor / swarm registration), so searches over a real node isolate each case.
pub fn run_isolated(driver: &str, item: &str, input: &Value) -> Option<String> {
    let exe = std::env::current_exe().ok()?;
    let out = std::process::Command::new(exe).args(["run", driver, item, &input.to_string()]).output().ok()?;
    let text = String::from_utf8_lossy(&out.stdout).to_string();
    for line in text.lines().rev() {
        if line.trim_start().starts_with('{') {
            if let Ok(v) = serde_json::from_str::<Value>(line.trim()) {
                return if v["found"].as_bool() == Some(true) { Some(v["detail"].as_str().unwrap_or("").to_string()) } else { None };
            }
        }
    }
    None
}

pub type SearchFn = fn(item: &str, seed: u64, hint: &Value) -> Option<(Value, String)>;
pub type RunFn = fn(item: &str, input: &Value) -> Option<String>;

pub struct Driver { pub name: &'static str, pub search: SearchFn, pub run: RunFn }

pub fn main_with(drivers: &[Driver]) {
    let args: Vec<String> = std::env::args().collect();
    if args.len() < 4 {
        eprintln!("usage: {} search <driver> <item> <seed> [hint-json] | run <driver> <item> <input-json>", args[0]);
        std::process::exit(2);
    }
    let d = match drivers.iter().find(|d| d.name == args[2]) {
        Some(d) => d,
        None => { println!("{}", json!({"found": false, "detail": format!("unknown driver {}", args[2])})); return; }
    };
    match args[1].as_str() {
        "search" => {
            let seed: u64 = args.get(4).and_then(|s| s.parse().ok()).unwrap_or(0);
            let hint: Value = args.get(5).and_then(|s| serde_json::from_str(s).ok()).unwrap_or(Value::Null);
            match (d.search)(&args[3], seed, &hint) {
                Some((input, detail)) => println!("{}", json!({"found": true, "input": input, "detail": detail})),
                None => println!("{}", json!({"found": false, "detail": "search exhausted its budget without a failing input"})),
            }
        }
        "run" => {
            let input: Value = serde_json::from_str(&args[4]).unwrap_or(Value::Null);
            match (d.run)(&args[3], &input) {
                Some(detail) => println!("{}", json!({"found": true, "input": input, "detail": detail})),
                None => println!("{}", json!({"found": false, "detail": "the recorded input satisfies the oracle on this tree"})),
            }
        }
        _ => std::process::exit(2),
    }
}
