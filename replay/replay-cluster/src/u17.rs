//! U17: the cluster read handlers on a REAL single-node ClusterActor (replication factor 1: every accepted append is
//! quorum-confirmed at once, so the confirmed watermark covers the whole partition and the handlers must answer exactly
//! what the event-store model prescribes). A case = a list of transactions `[stream, events]` on one partition; the oracle
//! compares GetStreamVersion / GetPartitionSequence / ReadStream / ReadPartition with the model.
use kameo::actor::Spawn;
use libp2p::identity::Keypair;
use replay_common::*;
use serde_json::{json, Value};
use sierradb::database::{DatabaseBuilder, ExpectedVersion, NewEvent, Transaction};
use sierradb::id::{uuid_to_partition_hash, uuid_v7_with_partition_hash};
use sierradb::StreamId;
use sierradb_cluster::read::{GetPartitionSequence, GetStreamVersion, ReadPartition, ReadStream};
use sierradb_cluster::write::execute::ExecuteTransaction;
use sierradb_cluster::{ClusterActor, ClusterArgs};
use std::collections::{HashMap, HashSet};
use std::time::Duration;
use uuid::Uuid;

const PARTITIONS: u16 = 8;

async fn run_case_async(txs: &[(u8, u8)]) -> Option<String> {
    let dir = tempfile::tempdir().ok()?;
    let database = DatabaseBuilder::new().total_buckets(2).bucket_ids_from_range(0..2).open(dir.path()).ok()?;
    let cluster = ClusterActor::spawn(ClusterArgs {
        keypair: Keypair::generate_ed25519(), database, listen_addrs: vec![], node_count: 1, node_index: 0, bucket_count: 2,
        partition_count: PARTITIONS, replication_factor: 1, assigned_partitions: HashSet::from_iter(0..PARTITIONS),
        heartbeat_timeout: Duration::from_millis(1_000), heartbeat_interval: Duration::from_millis(6_000), replication_buffer_size: 1_000,
        replication_buffer_timeout: Duration::from_millis(8_000), replication_catchup_timeout: Duration::from_millis(2_000), mdns: false,
    });
    let key = Uuid::from_u128(0x1234_5678_9abc_def0_1122_3344_5566_7788);
    let hash = uuid_to_partition_hash(key);
    let pid = hash % PARTITIONS;
    let mut versions: HashMap<u8, u64> = HashMap::new(); // stream -> number of events
    let mut total: u64 = 0;
    for (i, (stream, n)) in txs.iter().enumerate() {
        let mut evs = smallvec::SmallVec::new();
        for _ in 0..*n {
            evs.push(NewEvent { event_id: uuid_v7_with_partition_hash(hash), stream_id: StreamId::new(format!("s{stream}")).ok()?, stream_version: ExpectedVersion::Any,
                event_name: "E".to_string(), timestamp: 1_700_000_000_000_000_000, metadata: vec![], payload: vec![i as u8] });
        }
        let tx = match Transaction::new(key, pid, evs) { Ok(t) => t, Err(e) => return Some(format!("transaction {i} could not be built: {e:?}")) };
        match cluster.ask(ExecuteTransaction::new(tx)).await {
            Ok(_) => { *versions.entry(*stream).or_insert(0) += *n as u64; total += *n as u64; }
            Err(e) => return Some(format!("transaction {i} ({n} events on stream s{stream}) was rejected on a healthy single node: {e:?}")),
        }
    }
    // the confirmation (rf = 1) is applied by the actor right after the append; give the mailbox a moment
    for _ in 0..50 {
        if let Ok(Some(s)) = cluster.ask(GetPartitionSequence { partition_id: pid }).await { if s + 1 == total { break; } }
        if total == 0 { break; }
        tokio::time::sleep(Duration::from_millis(20)).await;
    }
    match cluster.ask(GetPartitionSequence { partition_id: pid }).await {
        Ok(got) => { if got != total.checked_sub(1) { return Some(format!("GetPartitionSequence returned {got:?}, the model's latest confirmed sequence is {:?}", total.checked_sub(1))); } }
        Err(e) => return Some(format!("GetPartitionSequence failed: {e:?}")),
    }
    for (stream, n) in versions.iter() {
        let sid = StreamId::new(format!("s{stream}")).ok()?;
        match cluster.ask(GetStreamVersion { partition_id: pid, stream_id: sid.clone() }).await {
            Ok(got) => { if got != n.checked_sub(1) { return Some(format!("GetStreamVersion(s{stream}) returned {got:?} but the stream's latest confirmed version is {:?} (transactions {:?})", n.checked_sub(1), txs)); } }
            Err(e) => return Some(format!("GetStreamVersion failed: {e:?}")),
        }
        match cluster.ask(ReadStream { partition_id: pid, stream_id: sid, start_version: 0, end_version: None, count: 1000 }).await {
            Ok(se) => {
                let got: Vec<u64> = se.events.iter().map(|e| e.stream_version).collect();
                let want: Vec<u64> = (0..*n).collect();
                if got != want { return Some(format!("ReadStream(s{stream}) returned versions {got:?}, the model has {want:?}")); }
                if se.has_more { return Some(format!("ReadStream(s{stream}) reports has_more after returning every event")); }
            }
            Err(e) => return Some(format!("ReadStream failed: {e:?}")),
        }
    }
    match cluster.ask(ReadPartition { partition_id: pid, start_sequence: 0, end_sequence: None, count: 1000 }).await {
        Ok(pe) => {
            let got: Vec<u64> = pe.events.iter().map(|e| e.partition_sequence).collect();
            let want: Vec<u64> = (0..total).collect();
            if got != want { return Some(format!("ReadPartition returned sequences {got:?}, the model has {want:?}")); }
        }
        Err(e) => return Some(format!("ReadPartition failed: {e:?}")),
    }
    let _ = cluster.stop_gracefully().await;
    None
}

fn run_case(txs: &[(u8, u8)]) -> Option<String> {
    let rt = tokio::runtime::Builder::new_multi_thread().worker_threads(2).enable_all().build().ok()?;
    let r = rt.block_on(async { tokio::time::timeout(Duration::from_secs(60), run_case_async(txs)).await });
    rt.shutdown_background();
    match r { Ok(x) => x, Err(_) => Some("the single-node cluster did not answer within 60 s".to_string()) }
}

fn to_json(txs: &[(u8, u8)]) -> Value { json!({"txs": txs.iter().map(|t| json!([t.0, t.1])).collect::<Vec<_>>()}) }

pub fn search(_item: &str, seed: u64, _hint: &Value) -> Option<(Value, String)> {
    let mut rng = Rng::new(seed);
    let mut cases: Vec<Vec<(u8, u8)>> = vec![vec![(0, 1)], vec![(0, 2)], vec![(0, 1), (0, 3)], vec![(0, 2), (1, 1), (0, 1)], vec![(0, 3), (1, 2)]];
    for _ in 0..6 { let n = 1 + rng.below(4) as usize; cases.push((0..n).map(|_| (rng.below(2) as u8, 1 + rng.below(3) as u8)).collect()); }
    for c in cases { let j = to_json(&c); if let Some(d) = run_isolated("U17", "x", &j) { return Some((j, d)); } }
    None
}
pub fn run(_item: &str, input: &Value) -> Option<String> {
    let txs: Vec<(u8, u8)> = input["txs"].as_array()?.iter().map(|t| (t[0].as_u64().unwrap_or(0) as u8, t[1].as_u64().unwrap_or(1) as u8)).collect();
    run_case(&txs)
}
