//! U09: PartitionConfirmationState::update_confirmation / AtomicWatermark (C08). A script is a list of
//! deliveries (version, count); the reference is "longest prefix above the initial watermark whose MAXIMUM
//! delivered count reaches the quorum".
use replay_common::*;
use serde_json::{json, Value};
use sierradb_cluster::confirmation::{AtomicWatermark, PartitionConfirmationState};
use std::collections::BTreeMap;
use std::sync::Arc;

fn run_script(w0: u64, rf: u8, deliveries: &[(u64, u8)]) -> Option<String> {
    let mut s = PartitionConfirmationState::new(1);
    s.confirmed_watermark = Arc::new(AtomicWatermark::new(w0));
    let q = rf / 2 + 1;
    let mut best: BTreeMap<u64, u8> = BTreeMap::new();
    let mut last = w0;
    for (i, (v, c)) in deliveries.iter().enumerate() {
        if *v > last { let e = best.entry(*v).or_insert(0); if *c > *e { *e = *c; } }
        let r = match guarded(|| s.update_confirmation(*v, *c, rf)) { Ok(r) => r, Err(p) => return Some(format!("delivery {i} (version {v}, count {c}) panicked: {p}")) };
        let now = s.confirmed_watermark.get();
        if now < last { return Some(format!("delivery {i}: watermark decreased {last} -> {now}")); }
        if r != (now > last) { return Some(format!("delivery {i}: returned {r} but watermark went {last} -> {now}")); }
        // sound + complete against everything reported so far
        let mut expect = w0;
        while best.get(&(expect + 1)).map(|c| *c >= q).unwrap_or(false) { expect += 1; }
        if now > expect { return Some(format!("delivery {i}: watermark {now} exceeds the longest quorum-confirmed prefix {expect} reported so far (rf {rf})")); }
        if now < expect { return Some(format!("delivery {i} (version {v}, count {c}): watermark {now} is behind the longest quorum-confirmed prefix {expect} of the counts reported so far (rf {rf}, deliveries {:?})", &deliveries[..=i])); }
        if let Some(k) = s.unconfirmed_events.keys().next().filter(|k| **k <= now) { return Some(format!("delivery {i}: version {k} still pending at or below the watermark {now}")); }
        last = now;
    }
    None
}

pub fn search(_item: &str, seed: u64, _hint: &Value) -> Option<(Value, String)> {
    let mut rng = Rng::new(seed);
    // a long run of duplicates first (u8 counters)
    for base in [0u64, 41] {
        let d: Vec<(u64, u8)> = (0..300).map(|_| (base + 2, 1u8)).collect();
        if let Some(x) = run_script(base, 3, &d) { return Some((json!({"w0": base, "rf": 3, "deliveries": d.iter().map(|(v, c)| json!([v, c])).collect::<Vec<_>>()}), x)); }
    }
    for _ in 0..200_000u64 {
        let w0 = rng.pick(&[0u64, 7, 1000]);
        let rf = 1 + rng.below(5) as u8;
        let n = 1 + rng.below(8) as usize;
        let d: Vec<(u64, u8)> = (0..n).map(|_| (w0 + rng.below(5), rng.below(rf as u64 + 1) as u8)).collect();
        if let Some(x) = run_script(w0, rf, &d) { return Some((json!({"w0": w0, "rf": rf, "deliveries": d.iter().map(|(v, c)| json!([v, c])).collect::<Vec<_>>()}), x)); }
    }
    None
}

pub fn run(_item: &str, input: &Value) -> Option<String> {
    let d: Vec<(u64, u8)> = input["deliveries"].as_array()?.iter().map(|x| (x[0].as_u64().unwrap_or(0), x[1].as_u64().unwrap_or(0) as u8)).collect();
    run_script(input["w0"].as_u64()?, input["rf"].as_u64()? as u8, &d)
}
