//! Replay drivers over the real sierradb-cluster crate (hooks on).
use replay_common::*;

mod u09;
mod u10;
mod u11;
mod u16;
mod u17;

fn main() {
    main_with(&[Driver { name: "U17", search: u17::search, run: u17::run },
        Driver { name: "U16", search: u16::search, run: u16::run },
        Driver { name: "U09", search: u09::search, run: u09::run },
        Driver { name: "U10", search: u10::search, run: u10::run },
        Driver { name: "U11", search: u11::search, run: u11::run }]);
}
