//! Replay drivers over the real sierradb-cluster crate (hooks on).
use replay_common::*;

mod u11;

fn main() {
    main_with(&[Driver { name: "U11", search: u11::search, run: u11::run }]);
}
