//! U11: WriteCircuitBreaker (C26). A script is a list of steps, each with the clock value the step observes
//! (through the cfg-gated clock hook): ["fail"|"ok"|"allow"|"eta", clock_ms].
use replay_common::*;
use serde_json::{json, Value};
use sierradb_cluster::circuit_breaker::{verif_hooks, CircuitState, WriteCircuitBreaker};
use std::time::Duration;

fn run_script(th: u32, timeout_ms: u64, max_calls: u32, succ_th: u32, steps: &[(String, u64)]) -> Option<String> {
    verif_hooks::set_clock(Some(0));
    let b = WriteCircuitBreaker::new(th, Duration::from_millis(timeout_ms), max_calls, succ_th);
    // reference model (single thread)
    let mut consecutive: u32 = 0;
    let mut probes: u32 = 0;
    for (i, (op, clock)) in steps.iter().enumerate() {
        verif_hooks::set_clock(Some(*clock));
        let before = b.current_state();
        let r = guarded(|| match op.as_str() {
            "fail" => { b.record_failure(); 0 }
            "ok" => { b.record_success(); 0 }
            "allow" => { if b.should_allow_request() { 1 } else { 2 } }
            _ => { let _ = b.estimated_recovery_time(); 0 }
        });
        let after = b.current_state();
        match r {
            Err(p) => return Some(format!("step {i} `{op}` at clock {clock} panicked in state {before:?}: {p}")),
            Ok(code) => {
                match op.as_str() {
                    "fail" => { if before == CircuitState::Closed { consecutive += 1; if after == CircuitState::Open && consecutive < th { return Some(format!("step {i}: opened after {consecutive} consecutive failures, threshold {th}")); } } }
                    "ok" => { if before == CircuitState::Closed { consecutive = 0; } }
                    "allow" => {
                        if before == CircuitState::Open && after == CircuitState::HalfOpen { probes = 0; }
                        if before == CircuitState::HalfOpen && code == 1 { probes += 1; if probes > max_calls { return Some(format!("step {i}: {probes} probes admitted in one half-open episode, max {max_calls}")); } }
                    }
                    _ => {}
                }
                if after != CircuitState::HalfOpen && before == CircuitState::HalfOpen { probes = 0; }
                if after == CircuitState::Closed && before != CircuitState::Closed { consecutive = 0; }
            }
        }
    }
    verif_hooks::set_clock(None);
    None
}

fn steps_of(v: &Value) -> Vec<(String, u64)> {
    v.as_array().map(|a| a.iter().map(|s| (s[0].as_str().unwrap_or("eta").to_string(), s[1].as_u64().unwrap_or(0))).collect()).unwrap_or_default()
}

pub fn search(_item: &str, seed: u64, _hint: &Value) -> Option<(Value, String)> {
    let mut rng = Rng::new(seed);
    let ops = ["fail", "ok", "allow", "eta"];
    for it in 0..200_000u64 {
        let th = 1 + rng.below(4) as u32;
        let timeout = rng.pick(&[0u64, 1, 10, 1000]);
        let max_calls = rng.below(4) as u32;
        let succ_th = rng.below(3) as u32;
        let n = 1 + rng.below(10) as usize;
        let mut clock = 1000u64;
        let mut steps = vec![];
        for _ in 0..n {
            // clocks mostly advance, sometimes step back (SystemTime is not monotonic; also models a racing store of a later failure time)
            match rng.below(6) { 0 => clock = clock.saturating_sub(rng.below(2000)), _ => clock += rng.below(1500) }
            steps.push((ops[rng.below(if it % 3 == 0 { 3 } else { 4 }) as usize].to_string(), clock));
        }
        if let Some(d) = run_script(th, timeout, max_calls, succ_th, &steps) {
            return Some((json!({"failure_threshold": th, "recovery_timeout_ms": timeout, "half_open_max_calls": max_calls, "half_open_success_threshold": succ_th,
                "steps": steps.iter().map(|(o, c)| json!([o, c])).collect::<Vec<_>>()}), d));
        }
    }
    None
}

pub fn run(_item: &str, input: &Value) -> Option<String> {
    run_script(input["failure_threshold"].as_u64()? as u32, input["recovery_timeout_ms"].as_u64()?, input["half_open_max_calls"].as_u64()? as u32,
        input["half_open_success_threshold"].as_u64()? as u32, &steps_of(&input["steps"]))
}
