//! U10: OrderedQueue (C12). A script is a list of operations on a real OrderedQueue<u64, Val>; after every
//! operation the executable rendering of the per-call contract (same clauses as units/U10) is evaluated.
use replay_common::*;
use serde_json::{json, Value};
use sierradb_cluster::write::ordered_queue::{Error, OrderedQueue, OrderedValue};
use std::collections::BTreeMap;

#[derive(Clone, Copy, Debug, PartialEq, Eq)]
struct Val { id: u8, merges: u8 }
impl OrderedValue for Val {
    fn key_eq(&self, o: &Self) -> bool { self.id == o.id }
    fn merge(&mut self, n: Self) { self.merges = self.merges.wrapping_add(n.merges).wrapping_add(1); }
}

fn run_script(next0: u64, limit: usize, ops: &[(String, u64, u8)]) -> Option<String> {
    let mut q: OrderedQueue<u64, Val> = OrderedQueue::new(next0, limit);
    let mut next = next0;
    for (i, (op, key, id)) in ops.iter().enumerate() {
        let before: BTreeMap<u64, Val> = q.map.clone();
        match op.as_str() {
            "insert" => {
                let val = Val { id: *id, merges: 0 };
                let r = match guarded(|| q.insert(*key, val)) { Ok(r) => r, Err(p) => return Some(format!("step {i} insert({key}) panicked: {p}")) };
                let existing = before.get(key).copied();
                let ctx = format!("step {i}: insert(key={key}, id={id}) with next={next}, limit={limit}, buffered={:?}", before.iter().map(|(k, v)| (*k, v.id)).collect::<Vec<_>>());
                match r {
                    Err(Error::Stale { .. }) => { if *key >= next { return Some(format!("{ctx}: Stale for a key not below next")); } if q.map != before { return Some(format!("{ctx}: a rejected stale write changed the buffer")); } }
                    Err(Error::Conflict { .. }) => {
                        match existing { Some(e) if !val.key_eq(&e) => {}, _ => return Some(format!("{ctx}: Conflict without a conflicting buffered write")) }
                        if q.map != before { return Some(format!("{ctx}: a rejected conflicting write changed the buffer: now {:?}", q.map.iter().map(|(k, v)| (*k, v.id)).collect::<Vec<_>>())); }
                    }
                    Err(Error::Full { .. }) => {
                        if !(*key > next && existing.is_none() && before.len() >= limit && before.keys().next_back().map(|l| l < key).unwrap_or(false)) { return Some(format!("{ctx}: Full although the write could be buffered, merged or rejected as a conflict")); }
                        if q.map != before { return Some(format!("{ctx}: a rejected write changed the buffer")); }
                    }
                    Ok(res) => {
                        if *key < next { return Some(format!("{ctx}: a write below the next expected sequence was accepted")); }
                        let mut exp = before.clone();
                        if *key == next {
                            match existing {
                                None => { if res.next != Some(val) || res.merged_with_existing { return Some(format!("{ctx}: expected write not handed over as is")); } }
                                Some(e) => { let mut m = e; m.merge(val); exp.remove(key); if !val.key_eq(&e) || res.next != Some(m) { return Some(format!("{ctx}: duplicate of the head not merged once")); } }
                            }
                            if res.evicted.is_some() { return Some(format!("{ctx}: eviction while handing over the expected write")); }
                        } else {
                            if res.next.is_some() { return Some(format!("{ctx}: an out-of-order write was handed over for application")); }
                            match existing {
                                Some(e) => { let mut m = e; m.merge(val); exp.insert(*key, m); if res.evicted.is_some() { return Some(format!("{ctx}: a duplicate of a buffered write evicted {:?}", res.evicted.map(|(k, _)| k))); } }
                                None => {
                                    if before.len() >= limit {
                                        let (lk, lv) = before.iter().next_back().map(|(k, v)| (*k, *v)).unwrap();
                                        if res.evicted != Some((lk, lv)) || lk <= *key { return Some(format!("{ctx}: wrong eviction {:?}", res.evicted.map(|(k, _)| k))); }
                                        exp.remove(&lk);
                                    } else if res.evicted.is_some() { return Some(format!("{ctx}: eviction although there was room")); }
                                    exp.insert(*key, val);
                                }
                            }
                        }
                        if q.map != exp { return Some(format!("{ctx}: buffer is {:?}, expected {:?}", q.map.iter().map(|(k, v)| (*k, v.id)).collect::<Vec<_>>(), exp.iter().map(|(k, v)| (*k, v.id)).collect::<Vec<_>>())); }
                    }
                }
                if q.map.len() > limit.max(before.len()) { return Some(format!("{ctx}: buffer exceeds its limit")); }
            }
            "pop" => {
                let r = q.pop();
                let mut exp = before.clone();
                let want = exp.remove(&next);
                if r != want || q.map != exp { return Some(format!("step {i}: pop() with next={next} returned {:?} (expected {:?}); buffered before {:?}", r.map(|v| v.id), want.map(|v| v.id), before.keys().collect::<Vec<_>>())); }
            }
            _ => {
                // progress_to(key): the replicator calls it with last applied sequence + 1
                q.progress_to(*key);
                next = *key;
                if *q.next() != next { return Some(format!("step {i}: progress_to({key}) did not set next")); }
                if !kf_open("KF-C12-progress-to-keeps-stale") {
                    if let Some(k) = q.map.keys().next().filter(|k| **k < next) { return Some(format!("step {i}: after progress_to({key}) the write buffered at {k} is left pending below the next expected sequence")); }
                } else if q.map != before { return Some(format!("step {i}: progress_to changed the buffer")); }
            }
        }
    }
    None
}

fn ops_of(v: &Value) -> Vec<(String, u64, u8)> {
    v.as_array().map(|a| a.iter().map(|s| (s[0].as_str().unwrap_or("pop").to_string(), s[1].as_u64().unwrap_or(0), s[2].as_u64().unwrap_or(0) as u8)).collect()).unwrap_or_default()
}

pub fn search(_item: &str, seed: u64, _hint: &Value) -> Option<(Value, String)> {
    let mut rng = Rng::new(seed);
    for _ in 0..300_000u64 {
        let next0 = rng.pick(&[0u64, 5, 100, u64::MAX - 6]);
        let limit = 1 + rng.below(3) as usize;
        let n = 1 + rng.below(8) as usize;
        let mut ops = vec![];
        let mut cur = next0;
        for _ in 0..n {
            match rng.below(8) {
                0 => ops.push(("pop".to_string(), 0, 0)),
                1 => { cur = cur.saturating_add(rng.below(4)); ops.push(("progress_to".to_string(), cur, 0)); }
                _ => ops.push(("insert".to_string(), cur.saturating_sub(1).saturating_add(rng.below(6)), rng.below(2) as u8)),
            }
        }
        if let Some(d) = run_script(next0, limit, &ops) {
            return Some((json!({"initial_next": next0, "limit": limit, "ops": ops.iter().map(|(o, k, i)| json!([o, k, i])).collect::<Vec<_>>()}), d));
        }
    }
    None
}

pub fn run(_item: &str, input: &Value) -> Option<String> {
    run_script(input["initial_next"].as_u64()?, input["limit"].as_u64()? as usize, &ops_of(&input["ops"]))
}
