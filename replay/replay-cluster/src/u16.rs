//! U16: SubscriptionMatcher (C09). A case = a matcher and a sequence of delivered records; the oracle is the per-key floor.
use replay_common::*;
use serde_json::{json, Value};
use sierradb::bucket::segment::EventRecord;
use sierradb::StreamId;
use sierradb_cluster::subscription::{verif_hooks, FromSequences, FromVersions, SubscriptionMatcher};
use std::collections::{HashMap, HashSet};
use uuid::Uuid;

fn rec(pid: u16, pseq: u64, key: u8, stream: u8, ver: u64) -> EventRecord {
    EventRecord { offset: 0, event_id: Uuid::nil(), partition_key: Uuid::from_u128(key as u128), partition_id: pid, transaction_id: Uuid::nil(), partition_sequence: pseq, stream_version: ver,
        timestamp: 0, confirmation_count: 0, stream_id: StreamId::new(format!("s{stream}")).unwrap(), event_name: String::new(), metadata: vec![], payload: vec![], size: 0 }
}
fn matcher_of(kind: u64, v: u64) -> SubscriptionMatcher {
    let pids: HashSet<u16> = [0u16, 1, 2].into_iter().collect();
    let skeys: HashSet<(Uuid, StreamId)> = [(Uuid::from_u128(0), StreamId::new("s0").unwrap()), (Uuid::from_u128(0), StreamId::new("s1").unwrap()), (Uuid::from_u128(1), StreamId::new("s2").unwrap())].into_iter().collect();
    match kind {
        0 => SubscriptionMatcher::AllPartitions { from_sequences: FromSequences::AllPartitions(v) },
        1 => SubscriptionMatcher::AllPartitions { from_sequences: FromSequences::Latest },
        2 => SubscriptionMatcher::AllPartitions { from_sequences: FromSequences::Partitions { from_sequences: HashMap::from_iter([(1u16, v)]), fallback: Some(v / 2) } },
        3 => SubscriptionMatcher::Partitions { partition_ids: pids, from_sequences: FromSequences::AllPartitions(v) },
        4 => SubscriptionMatcher::Partition { partition_id: 1, from_sequence: Some(v) },
        5 => SubscriptionMatcher::Stream { partition_key: Uuid::from_u128(0), stream_id: StreamId::new("s1").unwrap(), from_version: Some(v) },
        6 => SubscriptionMatcher::Streams { stream_ids: skeys, from_versions: FromVersions::Latest },
        7 => SubscriptionMatcher::Streams { stream_ids: skeys, from_versions: FromVersions::Streams(HashMap::from_iter([((Uuid::from_u128(0), StreamId::new("s0").unwrap()), v)])) },
        _ => SubscriptionMatcher::Streams { stream_ids: skeys, from_versions: FromVersions::AllStreams(v) },
    }
}
fn stream_keyed(kind: u64) -> bool { kind >= 5 }

fn run_case(kind: u64, v: u64, deliveries: &[(u16, u64, u8, u8, u64)]) -> Option<String> {
    if kind >= 8 && kf_open("KF-C09-allstreams-forgets-floor") { return None; }
    let mut m = matcher_of(kind, v);
    // probes: one record per key at several positions; seen-ness of every OTHER key must not change
    let probes: Vec<EventRecord> = (0..3u16).flat_map(|k| [0u64, v.saturating_sub(1), v, v + 5].into_iter().map(move |p| rec(k, p, (k / 2) as u8, k as u8, p))).collect();
    for (i, d) in deliveries.iter().enumerate() {
        let r = rec(d.0, d.1, d.2, d.3, d.4);
        let before: Vec<bool> = probes.iter().map(|p| verif_hooks::has_seen(&m, p)).collect();
        let was_seen = verif_hooks::has_seen(&m, &r);
        verif_hooks::update_state(&mut m, &r);
        let matches_now = !verif_hooks::has_seen(&m, &rec(d.0, u64::MAX - 1, d.2, d.3, u64::MAX - 1));
        if matches_now && !verif_hooks::has_seen(&m, &r) { return Some(format!("delivery {i}: the delivered record is not seen afterwards (would be delivered twice)")); }
        for (p, b) in probes.iter().zip(before.iter()) {
            let same_key = if stream_keyed(kind) { p.partition_key == r.partition_key && p.stream_id == r.stream_id } else { p.partition_id == r.partition_id };
            if !same_key && verif_hooks::has_seen(&m, p) != *b {
                return Some(format!("delivery {i} of (partition {}, seq {}, stream {}, version {}) changed has_seen of another key (partition {}, stream {}, position {}) from {} to {} [matcher kind {kind}, start {v}, already seen: {was_seen}]", d.0, d.1, r.stream_id, d.4, p.partition_id, p.stream_id, if stream_keyed(kind) { p.stream_version } else { p.partition_sequence }, b, !b));
            }
        }
    }
    None
}

pub fn search(_item: &str, seed: u64, _hint: &Value) -> Option<(Value, String)> {
    let mut rng = Rng::new(seed);
    for kind in 0..9u64 { for v in [0u64, 1, 10] { for _ in 0..200 {
        let n = 1 + rng.below(4) as usize;
        let d: Vec<(u16, u64, u8, u8, u64)> = (0..n).map(|_| { let k = rng.below(3) as u16; (k, v + rng.below(8), (k / 2) as u8, k as u8, v + rng.below(8)) }).collect();
        if let Some(x) = run_case(kind, v, &d) { return Some((json!({"kind": kind, "start": v, "deliveries": d.iter().map(|t| json!([t.0, t.1, t.2, t.3, t.4])).collect::<Vec<_>>()}), x)); }
    }}}
    None
}
pub fn run(_item: &str, input: &Value) -> Option<String> {
    let d: Vec<(u16, u64, u8, u8, u64)> = input["deliveries"].as_array()?.iter().map(|t| (t[0].as_u64().unwrap_or(0) as u16, t[1].as_u64().unwrap_or(0), t[2].as_u64().unwrap_or(0) as u8, t[3].as_u64().unwrap_or(0) as u8, t[4].as_u64().unwrap_or(0))).collect();
    run_case(input["kind"].as_u64()?, input["start"].as_u64()?, &d)
}
