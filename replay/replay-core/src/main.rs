//! Replay drivers over seglog, sierradb-protocol and sierradb (real crates, hooks on).
use replay_common::*;
use serde_json::{json, Value};

mod u04;

fn main() {
    main_with(&[Driver { name: "U04", search: u04::search, run: u04::run }]);
}
