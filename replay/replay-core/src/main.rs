//! Replay drivers over seglog, sierradb-protocol and sierradb (real crates, hooks on).
use replay_common::*;

mod db;
mod u02;
mod u04;
mod u05;
mod u12;

fn main() {
    main_with(&[Driver { name: "DB", search: db::search, run: db::run },
        Driver { name: "U02", search: u02::search, run: u02::run },
        Driver { name: "U04", search: u04::search, run: u04::run },
        Driver { name: "U05", search: u05::search, run: u05::run },
        Driver { name: "U12", search: u12::search, run: u12::run }]);
}
