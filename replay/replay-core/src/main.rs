use replay_common::*;
fn main() { main_with(&[]); }
