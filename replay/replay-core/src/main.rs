//! Replay drivers over seglog, sierradb-protocol and sierradb (real crates, hooks on).
use replay_common::*;

mod u04;
mod u05;

fn main() {
    main_with(&[Driver { name: "U04", search: u04::search, run: u04::run },
        Driver { name: "U05", search: u05::search, run: u05::run }]);
}
