//! DB: the real sierradb::Database on real files (C03 scans; also C02 version conditions, C05 reopen). A script is a list of
//! transactions (each a list of (stream, expectation)); the oracle is the reference event-store model.
use replay_common::*;
use serde_json::{json, Value};
use sierradb::database::{Database, DatabaseBuilder, NewEvent, Transaction};
use sierradb::id::{uuid_to_partition_hash, uuid_v7_with_partition_hash};
use sierradb::{IterDirection, StreamId};
use sierradb_protocol::ExpectedVersion;
use std::collections::HashMap;
use uuid::Uuid;

struct Model { stream_versions: HashMap<String, Vec<(u64, u64)>>, partition: Vec<(String, u64)>, tx_of: Vec<usize> } // stream -> [(version, partition_seq)]

fn open(dir: &std::path::Path, segment: usize) -> Result<Database, String> {
    DatabaseBuilder::new().segment_size_bytes(segment).total_buckets(2).bucket_ids_from_range(0..2).open(dir).map_err(|e| e.to_string())
}

async fn check_scans(db: &Database, pid: u16, m: &Model, ctx: &str) -> Option<String> {
    // partition scans from every position, both directions
    let n = m.partition.len() as u64;
    for from in (0..=n).chain([u64::MAX]) {
        for dir in [IterDirection::Forward, IterDirection::Reverse] {
            if matches!(dir, IterDirection::Forward) && from == u64::MAX { continue; }
            let mut it = match db.read_partition(pid, from, dir).await { Ok(i) => i, Err(e) => return Some(format!("{ctx}: read_partition from {from} failed: {e}")) };
            let mut got: Vec<u64> = vec![];
            loop {
                match it.next().await { Ok(Some(c)) => { for e in c.into_iter() { got.push(e.partition_sequence); } if got.len() > 200 { break; } }, Ok(None) => break, Err(e) => return Some(format!("{ctx}: partition scan from {from} {dir:?} failed: {e}")) }
            }
            match dir {
                IterDirection::Forward => {
                    let want: Vec<u64> = (from..n).collect();
                    if got != want { return Some(format!("{ctx}: forward partition scan from {from} returned sequences {got:?}, expected {want:?}")); }
                }
                IterDirection::Reverse => {
                    // exactly the set of events at or before the position (groups may repeat their own events), groups in decreasing order
                    let hi = if from == u64::MAX { n } else { (from + 1).min(n) };
                    let mut set: Vec<u64> = got.clone(); set.sort(); set.dedup();
                    let want: Vec<u64> = (0..hi).collect();
                    // known finding KF-C03-reverse-inside-transaction: a position inside a multi-event transaction returns the whole group
                    let relaxed = true; // see DESIGN §10: a reverse position inside a multi-event transaction returns the whole group (not under contract)
                    let ok = if !relaxed { set == want } else {
                        want.iter().all(|w| set.contains(w)) && set.iter().all(|x| (*x as usize) < m.tx_of.len() && (want.contains(x) || want.iter().any(|w| m.tx_of[*w as usize] == m.tx_of[*x as usize])))
                    };
                    if !ok { return Some(format!("{ctx}: reverse partition scan from {} returned the event set {set:?}, expected exactly {want:?}", if from == u64::MAX { "the end".to_string() } else { from.to_string() })); }
                }
            }
        }
    }
    // stream scans
    for (s, versions) in &m.stream_versions {
        let len = versions.len() as u64;
        let sid = StreamId::new(s.as_str()).unwrap();
        for from in (0..=len).chain([u64::MAX]) {
            for dir in [IterDirection::Forward, IterDirection::Reverse] {
                if matches!(dir, IterDirection::Forward) && from == u64::MAX { continue; }
                let mut it = match db.read_stream(pid, sid.clone(), from, dir).await { Ok(i) => i, Err(e) => return Some(format!("{ctx}: read_stream {s} from {from} failed: {e}")) };
                let mut got: Vec<u64> = vec![];
                loop {
                    match it.next().await { Ok(Some(c)) => { for e in c.into_iter() { if e.stream_id.as_ref() as &str != s.as_str() { return Some(format!("{ctx}: stream scan of {s} returned an event of stream {}", e.stream_id)); } got.push(e.stream_version); } if got.len() > 200 { break; } }, Ok(None) => break, Err(e) => return Some(format!("{ctx}: stream scan {s} from {from} {dir:?} failed: {e}")) }
                }
                match dir {
                    IterDirection::Forward => { let want: Vec<u64> = (from..len).collect(); if got != want { return Some(format!("{ctx}: forward scan of stream {s} from {from} returned versions {got:?}, expected {want:?}")); } }
                    IterDirection::Reverse => {
                        let hi = if from == u64::MAX { len } else { (from + 1).min(len) };
                        let mut set = got.clone(); set.sort(); set.dedup();
                        let want: Vec<u64> = (0..hi).collect();
                        let relaxed = true; // see DESIGN §10: a reverse position inside a multi-event transaction returns the whole group (not under contract)
                        let seq_of = |v: u64| versions[v as usize].1 as usize;
                        let ok = if !relaxed { set == want } else {
                            want.iter().all(|w| set.contains(w)) && set.iter().all(|x| (*x as usize) < versions.len() && (want.contains(x) || want.iter().any(|w| m.tx_of[seq_of(*w)] == m.tx_of[seq_of(*x)])))
                        };
                        if !ok { return Some(format!("{ctx}: reverse scan of stream {s} from {} returned the version set {set:?}, expected exactly {want:?}", if from == u64::MAX { "the end".to_string() } else { from.to_string() })); }
                    }
                }
            }
        }
        match db.get_stream_version(pid, &sid).await { Ok(v) => { let got = v.map(|x| x.version); if got != Some(len - 1) { return Some(format!("{ctx}: latest version of {s} is {got:?}, model {}", len - 1)); } }, Err(e) => return Some(format!("{ctx}: get_stream_version failed: {e}")) }
    }
    None
}

async fn run_script(txs: &[Vec<(String, String)>], segment: usize, reopen: bool) -> Option<String> {
    let dir = tempfile::tempdir().ok()?;
    let mut db = match open(dir.path(), segment) { Ok(d) => d, Err(e) => return Some(format!("open failed: {e}")) };
    let key = Uuid::from_u128(0x1234_5678_9abc_def0_1122_3344_5566_7788);
    let hash = uuid_to_partition_hash(key);
    let pid: u16 = hash % 8;
    let mut m = Model { stream_versions: HashMap::new(), partition: vec![], tx_of: vec![] };
    for (ti, tx) in txs.iter().enumerate() {
        // model decision
        let mut tmp: HashMap<String, u64> = HashMap::new();
        let mut ok = true;
        let mut evs = smallvec::SmallVec::<[NewEvent; 4]>::new();
        for (s, exp) in tx {
            let cur = m.stream_versions.get(s).map(|v| v.len() as u64).unwrap_or(0) + tmp.get(s).copied().unwrap_or(0);
            let e = match exp.as_str() { "any" => ExpectedVersion::Any, "exists" => ExpectedVersion::Exists, "empty" => ExpectedVersion::Empty, "next" => ExpectedVersion::from_next_version(cur), "wrong" => ExpectedVersion::Exact(cur + 3), _ => ExpectedVersion::Any };
            let holds = match e { ExpectedVersion::Any => true, ExpectedVersion::Exists => cur > 0, ExpectedVersion::Empty => cur == 0, ExpectedVersion::Exact(v) => cur > 0 && v == cur - 1 };
            if !holds { ok = false; }
            *tmp.entry(s.clone()).or_insert(0) += 1;
            evs.push(NewEvent { event_id: uuid_v7_with_partition_hash(hash), stream_id: StreamId::new(s.as_str()).unwrap(), stream_version: e, event_name: "e".into(), timestamp: 1, metadata: vec![], payload: vec![ti as u8; 40] });
        }
        let t = match Transaction::new(key, pid, evs) { Ok(t) => t, Err(e) => return Some(format!("tx {ti}: Transaction::new failed: {e}")) };
        let res = db.append_events(t).await;
        match (&res, ok) {
            (Ok(r), true) => {
                let first = m.partition.len() as u64;
                if r.first_partition_sequence != first || r.last_partition_sequence != first + tx.len() as u64 - 1 { return Some(format!("tx {ti}: accepted with partition sequences {}..={}, model {}..={}", r.first_partition_sequence, r.last_partition_sequence, first, first + tx.len() as u64 - 1)); }
                for (s, _) in tx { let seq = m.partition.len() as u64; let v = m.stream_versions.entry(s.clone()).or_default(); let ver = v.len() as u64; v.push((ver, seq)); m.partition.push((s.clone(), ver)); m.tx_of.push(ti); }
            }
            (Err(_), false) => {}
            (Ok(_), false) => return Some(format!("tx {ti} {tx:?}: accepted although an expected version does not hold")),
            (Err(e), true) => return Some(format!("tx {ti} {tx:?}: rejected although every expected version holds: {e}")),
        }
        match db.get_partition_sequence(pid).await { Ok(v) => { let got = v.map(|x| x.sequence); let want = if m.partition.is_empty() { None } else { Some(m.partition.len() as u64 - 1) }; if got != want { return Some(format!("after tx {ti}: latest partition sequence {got:?}, model {want:?}")); } }, Err(e) => return Some(format!("get_partition_sequence failed: {e}")) }
    }
    if let Some(d) = check_scans(&db, pid, &m, "live").await { return Some(d); }
    if reopen {
        drop(db);
        tokio::time::sleep(std::time::Duration::from_millis(50)).await;
        db = match open(dir.path(), segment) { Ok(d) => d, Err(e) => return Some(format!("reopen failed: {e}")) };
        if let Some(d) = check_scans(&db, pid, &m, "after reopen").await { return Some(d); }
    }
    None
}

/// C01 / U12w: with a long sync interval an append is acknowledged only after the periodic fsync; the append that rolls the
/// segment over lands in the fresh segment and must wait for that segment's fsync as well. Returns the acknowledgement
/// latencies (ms) of the first append and of the append that triggered the rollover. Payloads are incompressible so that the
/// stored sizes (70 KiB + 62 KiB > 128 KiB segment) really force the rollover.
async fn rollover_ack_latency(sync_ms: u64) -> Result<(u128, u128), String> {
    let dir = tempfile::tempdir().map_err(|e| e.to_string())?;
    let db = DatabaseBuilder::new().segment_size_bytes(128 * 1024).total_buckets(1).bucket_ids_from_range(0..1)
        .sync_interval(std::time::Duration::from_millis(sync_ms)).sync_idle_interval(std::time::Duration::from_millis(sync_ms / 2)).max_batch_size(1_000_000).min_sync_bytes(usize::MAX / 2)
        .open(dir.path()).map_err(|e| e.to_string())?;
    let key = Uuid::from_u128(0x1234_5678_9abc_def0_1122_3344_5566_7788);
    let hash = uuid_to_partition_hash(key);
    let mk = |n: u64, kib: usize| {
        let mut x: u64 = 0x9E37_79B9_7F4A_7C15 ^ n;
        let payload: Vec<u8> = (0..kib * 1024).map(|_| { x ^= x << 13; x ^= x >> 7; x ^= x << 17; (x >> 24) as u8 }).collect();
        let mut evs = smallvec::SmallVec::<[NewEvent; 4]>::new();
        evs.push(NewEvent { event_id: uuid_v7_with_partition_hash(hash), stream_id: StreamId::new("big").unwrap(), stream_version: ExpectedVersion::Any, event_name: "e".into(), timestamp: 1, metadata: vec![], payload });
        Transaction::new(key, 0, evs).unwrap()
    };
    let t0 = std::time::Instant::now();
    let r1 = db.append_events(mk(1, 70)).await.map_err(|e| e.to_string())?;
    let first = t0.elapsed().as_millis();
    let t1 = std::time::Instant::now();
    let r2 = db.append_events(mk(2, 62)).await.map_err(|e| e.to_string())?;
    let second = t1.elapsed().as_millis();
    if r2.offsets.first() != r1.offsets.first() { return Err("the second append did not roll the segment over".into()); }
    Ok((first, second))
}

/// C19 / U19: a transaction that fits an empty segment, appended when the live segment's free space is within a few bytes of
/// its stored size, must be accepted (rolling over if needed); a persistent "segment full" is the violation. Returns the error
/// of the last attempt when all `attempts` failed.
async fn fit_boundary(compression: bool, events: usize, slack: i64, attempts: usize) -> Result<Option<String>, String> {
    let dir = tempfile::tempdir().map_err(|e| e.to_string())?;
    let seg: usize = 128 * 1024;
    let mut b = DatabaseBuilder::new();
    b.segment_size_bytes(seg).total_buckets(1).bucket_ids_from_range(0..1).compression(compression);
    let db = b.open(dir.path()).map_err(|e| e.to_string())?;
    let key = Uuid::from_u128(0x1234_5678_9abc_def0_1122_3344_5566_7788);
    let hash = uuid_to_partition_hash(key);
    let noise = |n: u64, len: usize| -> Vec<u8> { let mut x: u64 = 0x9E37_79B9_7F4A_7C15 ^ n; (0..len).map(|_| { x ^= x << 13; x ^= x >> 7; x ^= x << 17; (x >> 24) as u8 }).collect() };
    let ev = |n: u64, len: usize| NewEvent { event_id: uuid_v7_with_partition_hash(hash), stream_id: StreamId::new("big").unwrap(), stream_version: ExpectedVersion::Any, event_name: "e".into(), timestamp: 1, metadata: vec![], payload: noise(n, len) };
    let mut first = smallvec::SmallVec::<[NewEvent; 4]>::new();
    first.push(ev(1, 70 * 1024));
    db.append_events(Transaction::new(key, 0, first).unwrap()).await.map_err(|e| e.to_string())?;
    // uncompressed stored sizes (record format): event = 93 + |stream id| + |event name| + |metadata| + |payload|, commit = 37
    let per_event = 93 + 3 + 1;
    let used = 48 + per_event + 70 * 1024;
    let overhead = events * per_event + if events > 1 { 37 } else { 0 };
    let total_payload = seg as i64 - used as i64 - overhead as i64 - slack;
    if total_payload < events as i64 { return Ok(None); }
    let mut last = None;
    for _ in 0..attempts {
        let mut evs = smallvec::SmallVec::<[NewEvent; 4]>::new();
        for k in 0..events { let len = total_payload as usize / events + if k == 0 { total_payload as usize % events } else { 0 }; evs.push(ev(10 + k as u64, len)); }
        match db.append_events(Transaction::new(key, 0, evs).unwrap()).await { Ok(_) => return Ok(None), Err(e) => last = Some(e.to_string()) }
    }
    Ok(last)
}

/// C01 / U12w P2: [append, a 2-event transaction that rolls the segment over and whose SECOND event is rejected (out-of-range
/// timestamp), append], close, reopen: every acknowledged event is still returned by event lookup and partition scan.
async fn rejected_after_rollover() -> Result<Option<String>, String> {
    let dir = tempfile::tempdir().map_err(|e| e.to_string())?;
    let key = Uuid::from_u128(0x1234_5678_9abc_def0_1122_3344_5566_7788);
    let hash = uuid_to_partition_hash(key);
    let noise = |n: u64, len: usize| -> Vec<u8> { let mut x: u64 = 0x9E37_79B9_7F4A_7C15 ^ n; (0..len).map(|_| { x ^= x << 13; x ^= x >> 7; x ^= x << 17; (x >> 24) as u8 }).collect() };
    let ev = |n: u64, len: usize, ts: u64| NewEvent { event_id: uuid_v7_with_partition_hash(hash), stream_id: StreamId::new("a").unwrap(), stream_version: ExpectedVersion::Any, event_name: "e".into(), timestamp: ts, metadata: vec![], payload: noise(n, len) };
    let open = || { let mut b = DatabaseBuilder::new(); b.segment_size_bytes(128 * 1024).total_buckets(1).bucket_ids_from_range(0..1); b.open(dir.path()) };
    let mut acked = vec![];
    {
        let db = open().map_err(|e| e.to_string())?;
        let mut t1 = smallvec::SmallVec::<[NewEvent; 4]>::new(); t1.push(ev(1, 70 * 1024, 1)); acked.push(t1[0].event_id);
        db.append_events(Transaction::new(key, 0, t1).unwrap()).await.map_err(|e| e.to_string())?;
        let mut t2 = smallvec::SmallVec::<[NewEvent; 4]>::new(); t2.push(ev(2, 62 * 1024, 1)); t2.push(ev(3, 10, 1u64 << 63));
        if db.append_events(Transaction::new(key, 0, t2).unwrap()).await.is_ok() { return Ok(None); } // not the rejected-transaction scenario
        let mut t3 = smallvec::SmallVec::<[NewEvent; 4]>::new(); t3.push(ev(4, 100, 1)); acked.push(t3[0].event_id);
        db.append_events(Transaction::new(key, 0, t3).unwrap()).await.map_err(|e| e.to_string())?;
        db.shutdown().await;
    }
    let db = match open() { Ok(db) => db, Err(e) => return Ok(Some(format!("reopening failed: {e}"))) };
    for (k, id) in acked.iter().enumerate() {
        match db.read_event(0, *id).await { Ok(Some(e)) if e.partition_sequence == k as u64 => {}, other => return Ok(Some(format!("after reopen, lookup of acknowledged event #{k} returned {:?}", other.map(|o| o.map(|e| e.partition_sequence)).map_err(|e| e.to_string())))) }
    }
    let mut it = db.read_partition(0, 0, sierradb::IterDirection::Forward).await.map_err(|e| e.to_string())?;
    let mut seqs = vec![];
    loop { match it.next().await { Ok(Some(c)) => { for e in c.into_iter() { seqs.push(e.partition_sequence); } if seqs.len() > 20 { break; } } Ok(None) => break, Err(e) => return Ok(Some(format!("after reopen, the partition scan failed after sequences {seqs:?}: {e}"))) } }
    if seqs != vec![0, 1] { return Ok(Some(format!("after reopen, the partition scan returned sequences {seqs:?}, acknowledged were [0, 1]"))); }
    Ok(None)
}

/// C02 / U23: an append whose write fails AFTER all its records were handed to the buffered writer (an I/O error in
/// `flush_writer`, injected through the cfg-gated hook `verif_hooks::fail_next_flush_writer`) is rejected and truncated from the
/// log: nothing of it may stay observable. [append A; append B (2 events) with the flush failing; append C with the expectation
/// the model prescribes when B never happened; read back].
async fn flush_fault_rejected_append() -> Result<Option<String>, String> {
    let dir = tempfile::tempdir().map_err(|e| e.to_string())?;
    let key = Uuid::from_u128(0x1234_5678_9abc_def0_1122_3344_5566_7788);
    let hash = uuid_to_partition_hash(key);
    let ev = |exp: ExpectedVersion| NewEvent { event_id: uuid_v7_with_partition_hash(hash), stream_id: StreamId::new("a").unwrap(), stream_version: exp, event_name: "e".into(), timestamp: 1, metadata: vec![], payload: vec![1, 2, 3] };
    let db = { let mut b = DatabaseBuilder::new(); b.segment_size_bytes(128 * 1024).total_buckets(1).bucket_ids_from_range(0..1); b.open(dir.path()) }.map_err(|e| e.to_string())?;
    let mut t1 = smallvec::SmallVec::<[NewEvent; 4]>::new(); t1.push(ev(ExpectedVersion::Empty));
    db.append_events(Transaction::new(key, 0, t1).unwrap()).await.map_err(|e| e.to_string())?;
    sierradb::writer_thread_pool::verif_hooks::fail_next_flush_writer();
    let mut t2 = smallvec::SmallVec::<[NewEvent; 4]>::new(); t2.push(ev(ExpectedVersion::Exact(0))); t2.push(ev(ExpectedVersion::Exact(1)));
    if db.append_events(Transaction::new(key, 0, t2).unwrap()).await.is_ok() { return Ok(None); } // the fault did not hit this append: not the scenario
    // B was rejected: the stream still ends at version 0, the partition at sequence 0
    let mut t3 = smallvec::SmallVec::<[NewEvent; 4]>::new(); t3.push(ev(ExpectedVersion::Exact(0)));
    let r = match db.append_events(Transaction::new(key, 0, t3).unwrap().expected_partition_sequence(ExpectedVersion::Exact(0))).await {
        Ok(r) => r,
        Err(e) => return Ok(Some(format!("after a REJECTED two-event append (I/O error while flushing), an append expecting stream version 0 / partition sequence 0 (the state before the rejected append) was refused: {e}"))),
    };
    if r.first_partition_sequence != 1 || r.stream_versions.values().next().copied() != Some(1) { return Ok(Some(format!("the append after the rejected one got partition sequence {} / stream version {:?}, the model prescribes 1 / Some(1)", r.first_partition_sequence, r.stream_versions.values().next()))); }
    let v = db.get_stream_version(0, &StreamId::new("a").unwrap()).await.map_err(|e| e.to_string())?;
    let mut it = db.read_stream(0, StreamId::new("a").unwrap(), 0, IterDirection::Forward).await.map_err(|e| e.to_string())?;
    let mut got = vec![];
    loop { match it.next().await { Ok(Some(c)) => { for e in c.into_iter() { got.push(e.stream_version); } if got.len() > 20 { break; } } Ok(None) => break, Err(e) => return Ok(Some(format!("stream scan after the rejected append failed after versions {got:?}: {e}"))) } }
    if got != vec![0, 1] { return Ok(Some(format!("stream scan after [A, rejected B, C] returned versions {got:?}, the model has [0, 1] (latest version query: {v:?})"))); }
    db.shutdown().await;
    Ok(None)
}

/// C05 / U24: the process dies while a multi-event transaction is being written: its first event reached the file, the rest
/// (second event, commit record) did not. [append A (committed); append B = 2 events; close; wipe the file from B's second event
/// on (what a crash before those bytes reached write(2) leaves); reopen]: B was never acknowledged, so the database must equal the
/// model after [A]: the next append continues at partition sequence 1 / stream version 1 and scans return exactly A and it.
async fn torn_transaction_reopen() -> Result<Option<String>, String> {
    let dir = tempfile::tempdir().map_err(|e| e.to_string())?;
    let key = Uuid::from_u128(0x1234_5678_9abc_def0_1122_3344_5566_7788);
    let hash = uuid_to_partition_hash(key);
    let ev = |exp: ExpectedVersion| NewEvent { event_id: uuid_v7_with_partition_hash(hash), stream_id: StreamId::new("a").unwrap(), stream_version: exp, event_name: "e".into(), timestamp: 1, metadata: vec![], payload: vec![9u8; 40] };
    let open = || { let mut b = DatabaseBuilder::new(); b.segment_size_bytes(128 * 1024).total_buckets(1).bucket_ids_from_range(0..1).compression(false); b.open(dir.path()) };
    let cut_at;
    {
        let db = open().map_err(|e| e.to_string())?;
        let mut t0 = smallvec::SmallVec::<[NewEvent; 4]>::new(); t0.push(ev(ExpectedVersion::Empty));
        db.append_events(Transaction::new(key, 0, t0).unwrap()).await.map_err(|e| e.to_string())?;
        let mut t1 = smallvec::SmallVec::<[NewEvent; 4]>::new(); t1.push(ev(ExpectedVersion::Exact(0))); t1.push(ev(ExpectedVersion::Exact(1)));
        let r1 = db.append_events(Transaction::new(key, 0, t1).unwrap()).await.map_err(|e| e.to_string())?;
        cut_at = r1.offsets[1];
        db.shutdown().await;
    }
    // the crash: nothing from B's second event onwards reached the file
    fn walk(d: &std::path::Path, out: &mut Vec<std::path::PathBuf>) { if let Ok(rd) = std::fs::read_dir(d) { for e in rd.flatten() { let p = e.path(); if p.is_dir() { walk(&p, out); } else { out.push(p); } } } }
    let mut files = vec![]; walk(dir.path(), &mut files);
    let seg: Vec<_> = files.into_iter().filter(|p| std::fs::metadata(p).map(|m| m.len() == 128 * 1024).unwrap_or(false)).collect();
    if seg.len() != 1 { return Err(format!("expected one 128 KiB segment file, found {}", seg.len())); }
    {
        use std::io::{Seek, SeekFrom, Write};
        let mut f = std::fs::OpenOptions::new().write(true).open(&seg[0]).map_err(|e| e.to_string())?;
        f.seek(SeekFrom::Start(cut_at)).map_err(|e| e.to_string())?;
        f.write_all(&vec![0u8; 4096]).map_err(|e| e.to_string())?;
        f.sync_all().map_err(|e| e.to_string())?;
    }
    let db = match open() { Ok(db) => db, Err(e) => return Ok(Some(format!("reopening after the crash failed: {e}"))) };
    let mut t2 = smallvec::SmallVec::<[NewEvent; 4]>::new(); t2.push(ev(ExpectedVersion::Exact(0)));
    let r = match db.append_events(Transaction::new(key, 0, t2).unwrap().expected_partition_sequence(ExpectedVersion::Exact(0))).await {
        Ok(r) => r,
        Err(e) => return Ok(Some(format!("after the reopen an append expecting the state after [A] (stream version 0, partition sequence 0) was refused: {e} - the unacknowledged transaction's first event is counted"))),
    };
    if r.first_partition_sequence != 1 || r.stream_versions.values().next().copied() != Some(1) { return Ok(Some(format!("after the reopen the next append got partition sequence {} / stream version {:?}, the model prescribes 1 / Some(1)", r.first_partition_sequence, r.stream_versions.values().next()))); }
    let mut it = db.read_partition(0, 0, IterDirection::Forward).await.map_err(|e| e.to_string())?;
    let mut seqs = vec![];
    loop { match it.next().await { Ok(Some(c)) => { for e in c.into_iter() { seqs.push(e.partition_sequence); } if seqs.len() > 20 { break; } } Ok(None) => break, Err(e) => return Ok(Some(format!("after the reopen the partition scan failed after sequences {seqs:?}: {e}"))) } }
    if seqs != vec![0, 1] { return Ok(Some(format!("after the reopen the partition scan returned sequences {seqs:?}, the model has [0, 1]"))); }
    db.shutdown().await;
    Ok(None)
}

/// C05 / U20: a partition whose events live in TWO sealed segments and not in the live one (another partition's event rolled
/// the segment over); after a reopen the next append to it must continue its sequence and its stream's version.
async fn sequence_continues_after_reopen() -> Result<Option<String>, String> {
    let dir = tempfile::tempdir().map_err(|e| e.to_string())?;
    let open = || { let mut b = DatabaseBuilder::new(); b.segment_size_bytes(128 * 1024).total_buckets(1).bucket_ids_from_range(0..1).compression(false); b.open(dir.path()) };
    let key_a = Uuid::from_u128(0x1234_5678_9abc_def0_1122_3344_5566_7788);
    let key_b = Uuid::from_u128(0x0f0e_0d0c_0b0a_0908_8877_6655_4433_2211);
    let (ha, hb) = (uuid_to_partition_hash(key_a), uuid_to_partition_hash(key_b));
    let tx = |key: Uuid, hash: u16, stream: &str, len: usize| { let mut evs = smallvec::SmallVec::<[NewEvent; 4]>::new(); evs.push(NewEvent { event_id: uuid_v7_with_partition_hash(hash), stream_id: StreamId::new(stream).unwrap(), stream_version: ExpectedVersion::Any, event_name: "e".into(), timestamp: 1, metadata: vec![], payload: vec![7u8; len] }); Transaction::new(key, hash % 8, evs).unwrap() };
    {
        let db = open().map_err(|e| e.to_string())?;
        for k in 0..14u64 { let r = db.append_events(tx(key_a, ha, "sa", 16 * 1024)).await.map_err(|e| e.to_string())?; if r.first_partition_sequence != k { return Ok(Some(format!("append {k} of partition A got sequence {}", r.first_partition_sequence))); } }
        db.append_events(tx(key_b, hb, "sb", 16 * 1024)).await.map_err(|e| e.to_string())?;
        db.shutdown().await;
    }
    let db = match open() { Ok(db) => db, Err(e) => return Ok(Some(format!("reopening failed: {e}"))) };
    let r = db.append_events(tx(key_a, ha, "sa", 100)).await.map_err(|e| e.to_string())?;
    let ver = r.stream_versions.values().next().copied();
    if r.first_partition_sequence != 14 || ver != Some(14) { return Ok(Some(format!("after a reopen the 15th append to a partition held by two sealed segments got partition sequence {} and stream version {ver:?}, expected 14 / Some(14)", r.first_partition_sequence))); }
    Ok(None)
}

fn txs_of(v: &Value) -> Vec<Vec<(String, String)>> {
    v.as_array().map(|a| a.iter().map(|t| t.as_array().map(|es| es.iter().map(|e| (e[0].as_str().unwrap_or("s").to_string(), e[1].as_str().unwrap_or("any").to_string())).collect()).unwrap_or_default()).collect()).unwrap_or_default()
}

fn block_on<T>(f: impl std::future::Future<Output = T>) -> T { tokio::runtime::Builder::new_multi_thread().worker_threads(2).enable_all().build().unwrap().block_on(f) }

pub fn search(item: &str, seed: u64, _hint: &Value) -> Option<(Value, String)> {
    let mut rng = Rng::new(seed);
    if item.contains("rollover") {
        if let Ok(Ok((first, second))) = guarded(|| block_on(rollover_ack_latency(1500))) {
            if second * 4 < first { return Some((json!({"kind": "rollover_ack", "sync_ms": 1500}), format!("with a 1500 ms sync interval the first append was acknowledged after {first} ms (it waited for the periodic fsync) but the append that rolled the segment over was acknowledged after {second} ms: it was released by the sealed segment's watermark before its own fsync"))); }
        }
    }
    if item.contains("next_partition_sequence") || item.contains("latest_sequence") || item.contains("latest_version") {
        if let Ok(Ok(Some(d))) = guarded(|| block_on(sequence_continues_after_reopen())) {
            return Some((json!({"kind": "sequence_continues_after_reopen"}), format!("128 KiB segments: 14 events of 16 KiB to partition A (two segments), one event to partition B (third segment), close, reopen, append to A: {d}")));
        }
    }
    if item.contains("hydrate") {
        if let Ok(Ok(Some(d))) = guarded(|| block_on(torn_transaction_reopen())) {
            return Some((json!({"kind": "torn_transaction_reopen"}), format!("[append A; append B (2 events); close; wipe the segment file from B's second event on (crash before those bytes were written); reopen]: {d}")));
        }
    }
    if item.contains("handle_write") {
        if let Ok(Ok(Some(d))) = guarded(|| block_on(flush_fault_rejected_append())) {
            return Some((json!({"kind": "flush_fault_rejected_append"}), format!("[append A to stream a; append B (2 events) whose flush_writer fails with an injected I/O error => rejected; append C expecting the state before B]: {d}")));
        }
    }
    if item.contains("ack_handoff") || item.contains("rollover") {
        if let Ok(Ok(Some(d))) = guarded(|| block_on(rejected_after_rollover())) {
            return Some((json!({"kind": "rejected_after_rollover"}), format!("128 KiB segments: [70 KiB event; a 2-event transaction that rolls over and whose second event has timestamp 2^63 (rejected); a small event], close, reopen: {d}")));
        }
    }
    if item.contains("append_space") || item.contains("Writer::append") || item.contains("prepare_data") {
        for compression in [true, false] { for events in [1usize, 2] { for slack in -8i64..48 {
            if let Ok(Ok(Some(err))) = guarded(|| block_on(fit_boundary(compression, events, slack, 3))) {
                return Some((json!({"kind": "fit_boundary", "compression": compression, "events": events, "slack": slack}), format!("128 KiB segment, compression {compression}: after one 70 KiB event a transaction of {events} incompressible event(s) whose uncompressed records end {slack} bytes before the segment end (it fits an empty segment) failed on each of 3 attempts: {err}")));
            }
        }}}
    }
    let mk = |txs: &Vec<Vec<(String, String)>>, seg: usize, reopen: bool| json!({"txs": txs.iter().map(|t| t.iter().map(|(s, e)| json!([s, e])).collect::<Vec<_>>()).collect::<Vec<_>>(), "segment": seg, "reopen": reopen});
    let mut scripts: Vec<(Vec<Vec<(String, String)>>, usize, bool)> = vec![];
    let s = |x: &str, e: &str| (x.to_string(), e.to_string());
    scripts.push(((0..5).map(|_| vec![s("a", "next")]).collect(), 128 * 1024, false));
    scripts.push((vec![vec![s("a", "any"), s("b", "any"), s("a", "any")], vec![s("b", "next")], vec![s("a", "wrong")], vec![s("a", "next"), s("a", "next")]], 128 * 1024, true));
    for _ in 0..12 {
        let n = 2 + rng.below(10) as usize;
        let mut txs = vec![];
        for _ in 0..n {
            let k = 1 + rng.below(3) as usize;
            txs.push((0..k).map(|_| s(rng.pick(&["a", "b", "c"]), rng.pick(&["any", "next", "next", "exists", "empty", "wrong"]))).collect());
        }
        scripts.push((txs, if rng.below(2) == 0 { 128 * 1024 } else { 131072 }, rng.below(2) == 0));
    }
    for (txs, seg, reopen) in scripts {
        let r = guarded(|| block_on(run_script(&txs, seg, reopen)));
        match r { Ok(Some(d)) => return Some((mk(&txs, seg, reopen), d)), Err(p) => return Some((mk(&txs, seg, reopen), format!("panicked: {p}"))), Ok(None) => {} }
    }
    None
}
pub fn run(_item: &str, input: &Value) -> Option<String> {
    if input["kind"].as_str() == Some("rollover_ack") {
        return match guarded(|| block_on(rollover_ack_latency(input["sync_ms"].as_u64().unwrap_or(1500)))) {
            Ok(Ok((first, second))) if second * 4 < first => Some(format!("first append acknowledged after {first} ms (periodic fsync), the append that rolled the segment over after {second} ms: acknowledged before its fsync")),
            _ => None,
        };
    }
    if input["kind"].as_str() == Some("sequence_continues_after_reopen") {
        return match guarded(|| block_on(sequence_continues_after_reopen())) { Ok(Ok(Some(d))) => Some(d), _ => None };
    }
    if input["kind"].as_str() == Some("torn_transaction_reopen") {
        return match guarded(|| block_on(torn_transaction_reopen())) { Ok(Ok(Some(d))) => Some(d), _ => None };
    }
    if input["kind"].as_str() == Some("flush_fault_rejected_append") {
        return match guarded(|| block_on(flush_fault_rejected_append())) { Ok(Ok(Some(d))) => Some(d), _ => None };
    }
    if input["kind"].as_str() == Some("rejected_after_rollover") {
        return match guarded(|| block_on(rejected_after_rollover())) { Ok(Ok(Some(d))) => Some(d), _ => None };
    }
    if input["kind"].as_str() == Some("fit_boundary") {
        return match guarded(|| block_on(fit_boundary(input["compression"].as_bool().unwrap_or(true), input["events"].as_u64().unwrap_or(1) as usize, input["slack"].as_i64().unwrap_or(0), 3))) {
            Ok(Ok(Some(err))) => Some(format!("a transaction that fits an empty segment failed on each of 3 attempts: {err}")),
            _ => None,
        };
    }
    let txs = txs_of(&input["txs"]);
    match guarded(|| block_on(run_script(&txs, input["segment"].as_u64().unwrap_or(131072) as usize, input["reopen"].as_bool().unwrap_or(false)))) { Ok(r) => r, Err(p) => Some(format!("panicked: {p}")) }
}
