//! U04: expected-version algebra (C25) and validate_partition_sequence (C02).
use replay_common::*;
use serde_json::{json, Value};
use sierradb_protocol::{CurrentVersion, ExpectedVersion, VersionGap};

fn accepts(e: ExpectedVersion, c: CurrentVersion) -> bool {
    match e {
        ExpectedVersion::Any => true,
        ExpectedVersion::Exists => matches!(c, CurrentVersion::Current(_)),
        ExpectedVersion::Empty => matches!(c, CurrentVersion::Empty),
        ExpectedVersion::Exact(v) => c == CurrentVersion::Current(v),
    }
}
fn pos(c: CurrentVersion) -> i128 { match c { CurrentVersion::Empty => -1, CurrentVersion::Current(v) => v as i128 } }
fn sat(d: i128) -> u64 { if d > u64::MAX as i128 { u64::MAX } else { d as u64 } }
fn cur_of_next(n: u64) -> CurrentVersion { if n == 0 { CurrentVersion::Empty } else { CurrentVersion::Current(n - 1) } }

fn ev_of(v: &Value) -> Option<ExpectedVersion> {
    match v["kind"].as_str()? { "any" => Some(ExpectedVersion::Any), "exists" => Some(ExpectedVersion::Exists), "empty" => Some(ExpectedVersion::Empty),
        "exact" => Some(ExpectedVersion::Exact(v["v"].as_u64()?)), _ => None }
}
fn ev_json(e: ExpectedVersion) -> Value {
    match e { ExpectedVersion::Any => json!({"kind":"any"}), ExpectedVersion::Exists => json!({"kind":"exists"}), ExpectedVersion::Empty => json!({"kind":"empty"}),
        ExpectedVersion::Exact(v) => json!({"kind":"exact","v":v}) }
}
fn cv_of(v: &Value) -> Option<CurrentVersion> {
    match v["kind"].as_str()? { "empty" => Some(CurrentVersion::Empty), "current" => Some(CurrentVersion::Current(v["v"].as_u64()?)), _ => None }
}
fn cv_json(c: CurrentVersion) -> Value { match c { CurrentVersion::Empty => json!({"kind":"empty"}), CurrentVersion::Current(v) => json!({"kind":"current","v":v}) } }

fn check_pair(e: ExpectedVersion, c: CurrentVersion) -> Option<String> {
    let g = match guarded(|| e.gap_from(c)) { Ok(g) => g, Err(p) => return Some(format!("{e:?}.gap_from({c:?}) panicked: {p}")) };
    let want = match e { ExpectedVersion::Empty => -1i128, ExpectedVersion::Exact(v) => v as i128, _ => 0 };
    let expect = match e {
        ExpectedVersion::Any => VersionGap::None,
        ExpectedVersion::Exists => if matches!(c, CurrentVersion::Empty) { VersionGap::Incompatible } else { VersionGap::None },
        _ => if pos(c) == want { VersionGap::None } else if pos(c) > want { VersionGap::Ahead(sat(pos(c) - want)) } else { VersionGap::Behind(sat(want - pos(c))) },
    };
    if g != expect { return Some(format!("{e:?}.gap_from({c:?}) = {g:?}, the signed distance is {expect:?}")); }
    let b = match guarded(|| e.is_satisfied_by(c)) { Ok(b) => b, Err(p) => return Some(format!("{e:?}.is_satisfied_by({c:?}) panicked: {p}")) };
    if b != accepts(e, c) { return Some(format!("{e:?}.is_satisfied_by({c:?}) = {b}, but the store accepts = {}", accepts(e, c))); }
    if matches!(e, ExpectedVersion::Empty | ExpectedVersion::Exact(_)) != e.is_strict_allowed() { return Some(format!("is_strict_allowed({e:?}) wrong")); }
    // store side
    let next = match c { CurrentVersion::Empty => 0u64, CurrentVersion::Current(v) => match v.checked_add(1) { Some(n) => n, None => return None } };
    let r = match guarded(|| sierradb::writer_thread_pool::verif_hooks::validate_partition_sequence(7, e, next)) { Ok(r) => r, Err(p) => return Some(format!("validate_partition_sequence(7,{e:?},{next}) panicked: {p}")) };
    if r.is_ok() != accepts(e, cur_of_next(next)) { return Some(format!("validate_partition_sequence(7,{e:?},{next}) ok={} but accepts={}", r.is_ok(), accepts(e, cur_of_next(next)))); }
    if let Err(err) = r {
        match err {
            sierradb::error::WriteError::WrongExpectedSequence { partition_id, current, expected } => {
                if partition_id != 7 || current != cur_of_next(next) || expected != e { return Some(format!("validate_partition_sequence(7,{e:?},{next}) reports partition {partition_id} current {current:?} expected {expected:?}")); }
            }
            other => return Some(format!("validate_partition_sequence returned unexpected error {other:?}")),
        }
    }
    None
}

fn check_next(v: u64) -> Option<String> {
    let e = ExpectedVersion::from_next_version(v);
    let want = if v == 0 { ExpectedVersion::Empty } else { ExpectedVersion::Exact(v - 1) };
    if e != want { return Some(format!("from_next_version({v}) = {e:?}, expected {want:?}")); }
    match guarded(|| e.into_next_version()) { Ok(Some(x)) if x == v => {}, other => return Some(format!("into_next_version(from_next_version({v})) = {other:?}")) }
    let ex = ExpectedVersion::Exact(v);
    match guarded(|| ex.into_next_version()) {
        Ok(r) => { if r != v.checked_add(1) { return Some(format!("Exact({v}).into_next_version() = {r:?}")); }
                   if let Some(n) = r { if ExpectedVersion::from_next_version(n) != ex { return Some(format!("from_next_version(into_next_version(Exact({v}))) != Exact({v})")); } } }
        Err(p) => return Some(format!("Exact({v}).into_next_version() panicked: {p}")),
    }
    let c = CurrentVersion::Current(v);
    if c.as_expected_version() != ExpectedVersion::Exact(v) || CurrentVersion::Empty.as_expected_version() != ExpectedVersion::Empty { return Some("as_expected_version wrong".into()); }
    if v < u64::MAX { match guarded(|| c.next()) { Ok(n) if n == v + 1 => {}, other => return Some(format!("Current({v}).next() = {other:?}")) } }
    // Display / FromStr
    for e in [ExpectedVersion::Any, ExpectedVersion::Exists, ExpectedVersion::Empty, ExpectedVersion::Exact(v)] {
        let s = e.to_string();
        match s.parse::<ExpectedVersion>() { Ok(p) if p == e => {}, other => return Some(format!("ExpectedVersion {e:?} displays as {s:?} which parses to {other:?}")) }
    }
    for c in [CurrentVersion::Empty, CurrentVersion::Current(v)] {
        let s = c.to_string();
        match s.parse::<CurrentVersion>() { Ok(p) if p == c => {}, other => return Some(format!("CurrentVersion {c:?} displays as {s:?} which parses to {other:?}")) }
    }
    None
}

pub fn search(_item: &str, seed: u64, _hint: &Value) -> Option<(Value, String)> {
    let b = boundary_u64();
    let mut evs = vec![ExpectedVersion::Any, ExpectedVersion::Exists, ExpectedVersion::Empty];
    let mut cvs = vec![CurrentVersion::Empty];
    for &v in &b { evs.push(ExpectedVersion::Exact(v)); cvs.push(CurrentVersion::Current(v)); }
    for &v in &b { if let Some(d) = check_next(v) { return Some((json!({"kind":"next","v":v}), d)); } }
    for &e in &evs { for &c in &cvs {
        if let Some(d) = check_pair(e, c) { return Some((json!({"kind":"pair","expected":ev_json(e),"current":cv_json(c)}), d)); }
    }}
    let mut rng = Rng::new(seed);
    for _ in 0..200_000 {
        let v = rng.next() >> rng.below(64); let w = if rng.below(2) == 0 { v.wrapping_add(rng.below(5)).wrapping_sub(2) } else { rng.next() };
        if let Some(d) = check_next(v) { return Some((json!({"kind":"next","v":v}), d)); }
        let e = ExpectedVersion::Exact(v); let c = CurrentVersion::Current(w);
        if let Some(d) = check_pair(e, c) { return Some((json!({"kind":"pair","expected":ev_json(e),"current":cv_json(c)}), d)); }
    }
    None
}

pub fn run(_item: &str, input: &Value) -> Option<String> {
    match input["kind"].as_str()? {
        "next" => check_next(input["v"].as_u64()?),
        "pair" => check_pair(ev_of(&input["expected"])?, cv_of(&input["current"])?),
        _ => None,
    }
}
