//! U05: identifiers (C23).
use replay_common::*;
use serde_json::{json, Value};
use sierradb::id::*;
use uuid::Uuid;

fn check_hash(h: u16) -> Option<String> {
    let id = match guarded(|| uuid_v7_with_partition_hash(h)) { Ok(i) => i, Err(p) => return Some(format!("uuid_v7_with_partition_hash({h}) panicked: {p}")) };
    if uuid_to_partition_hash(id) != h { return Some(format!("uuid_v7_with_partition_hash({h}) = {id} embeds hash {}", uuid_to_partition_hash(id))); }
    if !validate_event_id(id, h) { return Some(format!("generated id {id} does not validate for its hash {h}")); }
    if validate_event_id(id, h.wrapping_add(1)) { return Some(format!("generated id {id} validates for another hash")); }
    let b = id.as_bytes();
    if b[7] & 0x0f != 7 || b[8] >> 6 != 0b10 { return Some(format!("documented version/variant bits not set in {id}")); }
    None
}

fn check_uuid(bytes: [u8; 16], p: u16, b: u16) -> Option<String> {
    let u = Uuid::from_bytes(bytes);
    let v = u128::from_be_bytes(bytes);
    let h = uuid_to_partition_hash(u);
    if h as u128 != (v >> 46) & 0xFFFF { return Some(format!("uuid_to_partition_hash({u}) = {h}, bits 61..46 are {}", (v >> 46) & 0xFFFF)); }
    for f in [false, true] {
        let r = set_uuid_flag(u, f);
        if get_uuid_flag(&r) != f { return Some(format!("get_uuid_flag(set_uuid_flag({u},{f})) != {f}")); }
        if uuid_to_partition_hash(r) != h { return Some(format!("set_uuid_flag({u},{f}) changed the embedded hash {h} -> {}", uuid_to_partition_hash(r))); }
        let rb = r.as_bytes();
        for i in 0..16 { if i != 8 && rb[i] != bytes[i] { return Some(format!("set_uuid_flag({u},{f}) changed byte {i}")); } }
        if rb[8] & 0x7f != bytes[8] & 0x7f { return Some(format!("set_uuid_flag({u},{f}) changed other bits of byte 8")); }
        if set_uuid_flag(r, get_uuid_flag(&u)) != u { return Some(format!("set_uuid_flag is not reversible on {u}")); }
    }
    if p > 0 && b > 0 {
        let part = h % p;
        if partition_id_to_bucket(part, b) != part % b { return Some(format!("partition_id_to_bucket({part},{b}) != {part} % {b}")); }
        if b <= p && !(kf_open("KF-C23-bucket-helpers") && p % b != 0) && extract_event_id_bucket(u, b) != partition_id_to_bucket(part, b) {
            return Some(format!("extract_event_id_bucket({u}, {b}) = {} but its partition {part} (hash {h} % {p}) is stored in bucket {}", extract_event_id_bucket(u, b), partition_id_to_bucket(part, b)));
        }
    }
    None
}

fn check_tx(key: [u8; 16], ids: &[[u8; 16]], pid: u16) -> Option<String> {
    use sierradb::database::{NewEvent, Transaction};
    use sierradb::StreamId;
    let key = Uuid::from_bytes(key);
    let evs: smallvec::SmallVec<[NewEvent; 4]> = ids.iter().map(|b| NewEvent { event_id: Uuid::from_bytes(*b), stream_id: StreamId::new("s").unwrap(),
        stream_version: sierradb_protocol::ExpectedVersion::Any, event_name: "e".into(), timestamp: 0, metadata: vec![], payload: vec![] }).collect();
    let all = ids.iter().all(|b| uuid_to_partition_hash(Uuid::from_bytes(*b)) == uuid_to_partition_hash(key));
    match guarded(|| Transaction::new(key, pid, evs)) {
        Err(p) => Some(format!("Transaction::new panicked: {p}")),
        Ok(Ok(t)) => {
            if ids.is_empty() { return Some("Transaction::new accepted an empty transaction".into()); }
            if !all { return Some(format!("Transaction::new accepted an event id that does not embed the partition key's hash (key {key})")); }
            if get_uuid_flag(&t.transaction_id()) != (ids.len() == 1) { return Some(format!("transaction id flag is {} for {} events", get_uuid_flag(&t.transaction_id()), ids.len())); }
            None
        }
        Ok(Err(e)) => { if !ids.is_empty() && all { Some(format!("Transaction::new rejected matching ids: {e}")) } else { None } }
    }
}

fn bytes_of(v: &Value) -> Option<[u8; 16]> { let a = v.as_array()?; let mut b = [0u8; 16]; for i in 0..16 { b[i] = a.get(i)?.as_u64()? as u8; } Some(b) }

pub fn search(_item: &str, seed: u64, _hint: &Value) -> Option<(Value, String)> {
    for h in 0..=u16::MAX { if let Some(d) = check_hash(h) { return Some((json!({"kind":"hash","h":h}), d)); } }
    let mut rng = Rng::new(seed);
    let small: Vec<u16> = vec![1, 2, 3, 4, 5, 6, 7, 8, 12, 16, 32, 64, 100, 255, 256, 1024, 65535];
    for it in 0..300_000u64 {
        let mut bytes = [0u8; 16];
        let (a, b) = (rng.next(), rng.next());
        bytes[..8].copy_from_slice(&a.to_be_bytes()); bytes[8..].copy_from_slice(&b.to_be_bytes());
        if it % 7 == 0 { bytes = [0xff; 16]; bytes[(it % 16) as usize] = rng.next() as u8; }
        if it % 11 == 0 { bytes = [0; 16]; bytes[(it % 16) as usize] = rng.next() as u8; }
        let (p, bk) = (rng.pick(&small), rng.pick(&small));
        if let Some(d) = check_uuid(bytes, p, bk) { return Some((json!({"kind":"uuid","bytes":bytes.to_vec(),"p":p,"b":bk}), d)); }
        if it % 50 == 0 {
            let n = rng.below(5) as usize;
            let mut ids = vec![];
            for k in 0..n { let mut e = bytes; e[0] = k as u8; if rng.below(4) == 0 { e[9] ^= 1 << rng.below(8); e[10] ^= 1 << rng.below(8); } ids.push(e); }
            if let Some(d) = check_tx(bytes, &ids, p) { return Some((json!({"kind":"tx","key":bytes.to_vec(),"ids":ids.iter().map(|x| x.to_vec()).collect::<Vec<_>>(),"pid":p}), d)); }
        }
    }
    None
}

pub fn run(_item: &str, input: &Value) -> Option<String> {
    match input["kind"].as_str()? {
        "hash" => check_hash(input["h"].as_u64()? as u16),
        "uuid" => check_uuid(bytes_of(&input["bytes"])?, input["p"].as_u64()? as u16, input["b"].as_u64()? as u16),
        "tx" => { let ids: Vec<[u8; 16]> = input["ids"].as_array()?.iter().filter_map(bytes_of).collect(); check_tx(bytes_of(&input["key"])?, &ids, input["pid"].as_u64()? as u16) }
        _ => None,
    }
}
