//! U02: the real seglog crate on real files (C17, C18, C01, C05, C19). A script is a list of steps on one Writer<1> and one
//! long-lived Reader<1> sharing the flushed offset; a reference log (what was appended and not truncated) is the oracle.
use replay_common::*;
use seglog::parse::parse_record;
use seglog::read::{ReadHint, Reader};
use seglog::write::Writer;
use serde_json::{json, Value};

const START: u64 = 16;

/// parse_record on arbitrary bytes must never panic and must only accept CRC-consistent records
fn parse_case(bytes: &[u8], off: usize) -> Option<String> {
    match guarded(|| parse_record::<1>(bytes, off).map(|(h, d, n)| (h, d, n)).map_err(|e| e.to_string())) {
        Err(p) => Some(format!("parse_record::<1>({} bytes {:02x?}, offset {off}) panicked: {p}", bytes.len(), &bytes[..bytes.len().min(24)])),
        Ok(Ok((h, d, n))) => {
            let lb: [u8; 4] = bytes[off..off + 4].try_into().unwrap();
            let lw = u32::from_le_bytes(lb);
            let crc = u32::from_le_bytes(bytes[off + 4..off + 8].try_into().unwrap());
            let stored = &bytes[off + 9..off + n];
            if crc != seglog::calculate_crc32c(&lb, &h, stored) { return Some(format!("parse_record accepted a record whose checksum does not cover its bytes (offset {off})")); }
            if lw & seglog::COMPRESSION_FLAG == 0 && d != stored { return Some("parse_record returned data that differs from the stored bytes".into()); }
            None
        }
        Ok(Err(_)) => None,
    }
}

#[derive(Clone)]
struct Rec { off: u64, n: usize, header: u8, data: Vec<u8> }

fn run_script(steps: &[Value]) -> Option<String> {
    let dir = tempfile::tempdir().ok()?;
    let path = dir.path().join("seg");
    // optional first step ["size", n]: segment size (default 4 MiB)
    let size = steps.first().filter(|st| st[0].as_str() == Some("size")).and_then(|st| st[1].as_u64()).unwrap_or(4 * 1024 * 1024) as usize;
    let mut w = Writer::<1>::create(&path, size, START).ok()?;
    let mut r = Reader::<1>::open(&path, Some(w.flushed_offset())).ok()?;
    let mut log: Vec<Rec> = vec![];
    let mut synced_upto = START;
    // records cut off by set_len whose bytes may still be in the file (set_len only writes a marker at the cut)
    let mut stale: Vec<Rec> = vec![];
    for (i, st) in steps.iter().enumerate() {
        let op = st[0].as_str().unwrap_or("");
        match op {
            "append" | "append_to_end" => {
                // append_to_end: the data length is chosen so that the UNCOMPRESSED record ends st[1] bytes before the segment end
                let len = if op == "append" { st[1].as_u64().unwrap_or(0) as usize } else { size.saturating_sub(w.write_offset() as usize + 9 + st[1].as_u64().unwrap_or(0) as usize) };
                let seed = st[2].as_u64().unwrap_or(0);
                let mut rng = Rng::new(seed);
                let data: Vec<u8> = (0..len).map(|k| if st[3].as_bool().unwrap_or(false) { (k % 7) as u8 } else { rng.next() as u8 }).collect();
                let header = [rng.next() as u8];
                match guarded(|| w.append(&header, &data)) {
                    Ok(Ok((off, n))) => {
                        let expect_off = log.last().map(|l| l.off + l.n as u64).unwrap_or(START);
                        if off != expect_off { return Some(format!("step {i}: append reported offset {off}, expected {expect_off}")); }
                        log.push(Rec { off, n, header: header[0], data });
                    }
                    Ok(Err(e)) => {
                        let expect_off = log.last().map(|l| l.off + l.n as u64).unwrap_or(START);
                        // C19: an append whose UNCOMPRESSED record (8-byte head + 1-byte header + data) fits must not be refused
                        if (expect_off as usize) + 9 + len <= size { return Some(format!("step {i}: append of {len} bytes at offset {expect_off} failed although its uncompressed record fits the segment of {size} bytes: {e}")); }
                    }
                    Err(p) => return Some(format!("step {i}: append panicked: {p}")),
                }
            }
            "compress" => { if st[1].as_bool().unwrap_or(true) { w.enable_compression() } else { w.disable_compression() } }
            "sync" => { match w.sync() { Ok(o) => synced_upto = o, Err(e) => return Some(format!("step {i}: sync failed: {e}")) } }
            "flush" => { let _ = w.flush_writer(); }
            "set_len" => {
                let k = st[1].as_u64().unwrap_or(0) as usize;
                if k < log.len() {
                    let off = log[k].off;
                    let cuts_flushed = off < w.flushed_offset().load();
                    if let Err(e) = w.set_len(off) { return Some(format!("step {i}: set_len failed: {e}")); }
                    // known finding: a long-lived reader's read-ahead cache is not invalidated when ALREADY FLUSHED records are truncated
                    if cuts_flushed && kf_open("KF-C18-truncate-flushed") { r = Reader::<1>::open(&path, Some(w.flushed_offset())).ok()?; }
                    stale.extend(log[k..].iter().cloned());
                    log.truncate(k);
                    synced_upto = synced_upto.min(off);
                    if w.write_offset() != off { return Some(format!("step {i}: after set_len({off}) write_offset is {}", w.write_offset())); }
                }
            }
            "read" | "readseq" | "iter" => {
                let hint = if op == "read" { ReadHint::Random } else { ReadHint::Sequential };
                let flushed = w.flushed_offset().load();
                if op == "iter" {
                    let mut it = r.iter(START);
                    for (k, rec) in log.iter().enumerate() {
                        if rec.off + rec.n as u64 > flushed { break; }
                        match it.next_record() {
                            Ok(Some(x)) => { if x.offset != rec.off || x.header[0] != rec.header || x.data[..] != rec.data[..] { return Some(format!("step {i}: iteration yields a different record at position {k} (offset {})", rec.off)); } }
                            Ok(None) => return Some(format!("step {i}: iteration ended before flushed record {k} at offset {} (flushed offset {flushed})", rec.off)),
                            Err(e) => return Some(format!("step {i}: iteration failed at record {k}: {e}")),
                        }
                    }
                } else {
                    let k = st[1].as_u64().unwrap_or(0) as usize;
                    if k < log.len() {
                        let rec = &log[k];
                        let res = guarded(|| r.read_record(rec.off, hint).map(|x| (x.offset, x.len, x.header.to_vec(), x.data.to_vec())).map_err(|e| e.to_string()));
                        match res {
                            Err(p) => return Some(format!("step {i}: read_record panicked: {p}")),
                            Ok(Ok((o, n, h, d))) => {
                                if rec.off + rec.n as u64 > flushed { return Some(format!("step {i}: a record beyond the flushed offset {flushed} was returned")); }
                                if o != rec.off || n != rec.n || h != vec![rec.header] || d != rec.data { return Some(format!("step {i}: {op} of record {k} at offset {} returned different bytes", rec.off)); }
                            }
                            Ok(Err(e)) => { if rec.off + rec.n as u64 <= flushed { return Some(format!("step {i}: {op} of flushed record {k} at offset {} (flushed offset {flushed}) failed: {e}", rec.off)); } }
                        }
                    }
                }
            }
            "tear" => {
                // crash while the LAST record was being written: only its first st[1] per-mille bytes reached the file (the rest
                // reads as the pre-allocated zeros); reopening must succeed and resume right after the last intact record
                if let Some(last) = log.last().cloned() {
                    let keep = (last.n as u64 * st[1].as_u64().unwrap_or(500).min(999) / 1000) as usize;
                    let _ = w.flush_writer();
                    drop(w);
                    {
                        use std::os::unix::fs::FileExt;
                        let f = std::fs::OpenOptions::new().write(true).open(&path).ok()?;
                        let zeros = vec![0u8; last.n - keep];
                        f.write_all_at(&zeros, last.off + keep as u64).ok()?;
                    }
                    log.pop();
                    w = match Writer::<1>::open(&path, size, START) { Ok(w) => w, Err(e) => return Some(format!("step {i}: reopening after a crash that tore the last record ({keep} of {} bytes on disk) failed: {e}", last.n)) };
                    let expect = log.last().map(|l| l.off + l.n as u64).unwrap_or(START);
                    if w.write_offset() != expect { return Some(format!("step {i}: after a torn last record the reopened writer resumes at {} but the last intact record ends at {expect}", w.write_offset())); }
                    r = Reader::<1>::open(&path, Some(w.flushed_offset())).ok()?;
                    stale.clear();
                }
            }
            "reopen" => {
                let _ = w.sync();
                drop(w);
                w = match Writer::<1>::open(&path, size, START) { Ok(w) => w, Err(e) => return Some(format!("step {i}: reopen failed: {e}")) };
                let expect = log.last().map(|l| l.off + l.n as u64).unwrap_or(START);
                if w.write_offset() != expect {
                    // NOT a violation of "resumes right after the last intact record": a new record that ends exactly where a cut-off
                    // record began makes that (physically intact) record the next one of the recovery scan (DESIGN A.5, seen). The
                    // script's model of the log ends here.
                    let mut e = expect;
                    while let Some(x) = stale.iter().find(|x| x.off == e) { e = x.off + x.n as u64; }
                    if w.write_offset() == e { return None; }
                    return Some(format!("step {i}: reopened writer resumes at {} but the last intact record ends at {expect}", w.write_offset()));
                }
                r = Reader::<1>::open(&path, Some(w.flushed_offset())).ok()?;
            }
            _ => {}
        }
    }
    let _ = synced_upto;
    None
}

pub fn search(_item: &str, seed: u64, _hint: &Value) -> Option<(Value, String)> {
    let mut rng = Rng::new(seed);
    // 1. parse_record on mutated record heads (length field below the header size, truncation, flags)
    for len_field in [0u32, 1, 2, 0x8000_0000, 0x8000_0001, 5, 0x7FFF_FFFF, 0xFFFF_FFFF] { for crc in [0u32, 1, 0xDEADBEEF] { for buflen in [8usize, 9, 12, 20] {
        let mut b = vec![0u8; buflen];
        b[..4].copy_from_slice(&len_field.to_le_bytes()); b[4..8].copy_from_slice(&crc.to_le_bytes());
        for x in b[8..].iter_mut() { *x = rng.next() as u8; }
        if let Some(d) = parse_case(&b, 0) { return Some((json!({"kind": "parse", "bytes": b, "offset": 0}), d)); }
    }}}
    for _ in 0..20_000 {
        let n = 8 + rng.below(24) as usize;
        let mut b: Vec<u8> = (0..n).map(|_| if rng.below(3) == 0 { 0 } else { rng.next() as u8 }).collect();
        if rng.below(2) == 0 { let l = rng.below(12) as u32; b[..4].copy_from_slice(&l.to_le_bytes()); }
        let off = rng.below(4) as usize;
        if let Some(d) = parse_case(&b, off) { return Some((json!({"kind": "parse", "bytes": b, "offset": off}), d)); }
    }
    // 2. fixed scenarios around buffer boundaries, then random scripts
    let sizes = [0usize, 1, 100, 127, 128, 2039, 2040, 2047, 2048, 4086, 4087, 4088, 4096, 5000, 65000, 65536, 70000];
    let mut scripts: Vec<Vec<Value>> = vec![
        vec![json!(["append", 10, 1, false]), json!(["sync"]), json!(["readseq", 0]), json!(["append", 20, 2, false]), json!(["sync"]), json!(["readseq", 1]), json!(["iter"])],
        vec![json!(["append", 10, 1, false]), json!(["append", 20, 2, false]), json!(["set_len", 1]), json!(["append", 30, 3, false]), json!(["sync"]), json!(["read", 1]), json!(["readseq", 1]), json!(["reopen"]), json!(["read", 1])],
        vec![json!(["append", 0, 1, false]), json!(["append", 9, 2, false]), json!(["sync"]), json!(["reopen"]), json!(["read", 1]), json!(["iter"])],
    ];
    for s in sizes { for comp in [false, true] {
        scripts.push(vec![json!(["compress", comp]), json!(["append", 60000, 9, true]), json!(["append", s, 5, !comp]), json!(["append", 3, 6, false]), json!(["sync"]), json!(["read", 1]), json!(["readseq", 1]), json!(["read", 2]), json!(["iter"]), json!(["reopen"]), json!(["readseq", 1])]);
    }}
    // C05: a crash inside the last record (any cut), then reopen, read everything back, append again
    for cut in [1u64, 4, 8, 9, 100, 500, 900, 999] { for len in [0usize, 10, 5000] {
        scripts.push(vec![json!(["append", 100, 31, false]), json!(["append", 300, 32, false]), json!(["sync"]), json!(["append", len, 33, false]), json!(["tear", cut]), json!(["iter"]), json!(["read", 1]), json!(["append", 50, 34, false]), json!(["sync"]), json!(["iter"]), json!(["reopen"]), json!(["iter"])]);
    }}
    // C18: a long-lived reader whose read-ahead window (beyond the first 64 KiB) was filled before later records were flushed
    for first in [60000usize, 66000, 130000] { for comp in [false, true] {
        scripts.push(vec![json!(["compress", comp]), json!(["append", first, 21, false]), json!(["append", 6000, 22, false]), json!(["sync"]), json!(["iter"]), json!(["readseq", 1]),
                          json!(["append", 500, 23, false]), json!(["sync"]), json!(["readseq", 2]), json!(["iter"]), json!(["append", 700, 24, true]), json!(["sync"]), json!(["readseq", 3]), json!(["read", 3]), json!(["iter"])]);
    }}
    // C19: records that end within a few bytes of the segment end, compressible and not, compression on and off
    for comp in [true, false] { for slack in 0..24usize { for compressible in [false, true] {
        scripts.push(vec![json!(["size", 4096]), json!(["compress", comp]), json!(["append", 3000, 11, false]), json!(["append_to_end", slack, 12, compressible]), json!(["sync"]), json!(["iter"]), json!(["reopen"]), json!(["iter"])]);
    }}}
    for _ in 0..300 {
        let n = 3 + rng.below(10) as usize;
        let mut s = vec![];
        let mut appended = 0u64;
        for _ in 0..n {
            match rng.below(10) {
                0..=3 => { s.push(json!(["append", rng.pick(&sizes) , rng.next() % 1000, rng.below(2) == 0])); appended += 1; }
                4 => s.push(json!(["sync"])),
                5 => s.push(json!(["read", rng.below(appended.max(1))])),
                6 => s.push(json!(["readseq", rng.below(appended.max(1))])),
                7 => s.push(json!(["iter"])),
                8 => { if appended > 1 { let k = rng.below(appended); s.push(json!(["set_len", k])); appended = k; } }
                _ => { s.push(json!(["compress", rng.below(2) == 0])); }
            }
        }
        s.push(json!(["sync"])); s.push(json!(["iter"])); s.push(json!(["reopen"])); s.push(json!(["iter"]));
        scripts.push(s);
    }
    for s in scripts { if let Some(d) = run_script(&s) { return Some((json!({"kind": "script", "steps": s}), d)); } }
    None
}

pub fn run(_item: &str, input: &Value) -> Option<String> {
    match input["kind"].as_str()? {
        "parse" => { let b: Vec<u8> = input["bytes"].as_array()?.iter().map(|x| x.as_u64().unwrap_or(0) as u8).collect(); parse_case(&b, input["offset"].as_u64()? as usize) }
        "script" => run_script(input["steps"].as_array()?),
        _ => None,
    }
}
