//! U12: writer-thread routing (C16).
use replay_common::*;
use serde_json::{json, Value};
use sierradb::writer_thread_pool::verif_hooks::bucket_id_to_thread_id;

fn oracle(ids: &[u16], threads: u16) -> Option<String> {
    let len = ids.len();
    let mut counts = vec![0usize; threads as usize];
    let mut last = 0u16;
    for (i, b) in ids.iter().enumerate() {
        let r = match guarded(|| bucket_id_to_thread_id(*b, ids, threads)) { Ok(r) => r, Err(p) => return Some(format!("bucket_id_to_thread_id({b}, {ids:?}, {threads}) panicked: {p}")) };
        match r {
            None => return Some(format!("bucket {b} (position {i} of {ids:?}) is stored by this node but routed to no writer thread (threads {threads})")),
            Some(t) if t >= threads => return Some(format!("bucket {b} routed to thread {t} but only {threads} writer threads exist")),
            Some(t) => { if t < last { return Some(format!("thread ids not monotone in bucket position: {ids:?} threads {threads}")); } last = t; counts[t as usize] += 1; }
        }
    }
    let base = len / threads as usize;
    if let Some((t, c)) = counts.iter().enumerate().find(|(_, c)| **c != base && **c != base + 1) { return Some(format!("thread {t} owns {c} of {len} buckets with {threads} threads (expected {base} or {})", base + 1)); }
    let other = (0..=u16::MAX).find(|x| !ids.contains(x)).unwrap();
    if bucket_id_to_thread_id(other, ids, threads).is_some() { return Some(format!("bucket {other} is not stored by this node but is routed to a writer thread")); }
    None
}

pub fn search(_item: &str, seed: u64, _hint: &Value) -> Option<(Value, String)> {
    for len in 1..=12usize { for threads in 1..=len as u16 {
        let ids: Vec<u16> = (0..len as u16).map(|i| i * 3 + 1).collect();
        if let Some(d) = oracle(&ids, threads) { return Some((json!({"ids": ids, "threads": threads}), d)); }
    }}
    let mut rng = Rng::new(seed);
    for _ in 0..50_000 {
        let len = 1 + rng.below(40) as usize;
        let mut ids: Vec<u16> = vec![];
        while ids.len() < len { let x = rng.next() as u16; if !ids.contains(&x) { ids.push(x); } }
        let threads = 1 + rng.below(len as u64) as u16;
        if let Some(d) = oracle(&ids, threads) { return Some((json!({"ids": ids, "threads": threads}), d)); }
    }
    None
}
pub fn run(_item: &str, input: &Value) -> Option<String> {
    let ids: Vec<u16> = input["ids"].as_array()?.iter().map(|x| x.as_u64().unwrap_or(0) as u16).collect();
    oracle(&ids, input["threads"].as_u64()? as u16)
}
