#!/bin/sh
# Offline build of the framework: the vx extractor and the replay runner (path deps on /repo/crates).
set -e
cd /verif/vx && CARGO_NET_OFFLINE=true cargo build --release --offline
cd /verif/replay
export CARGO_NET_OFFLINE=true CARGO_TARGET_DIR=/verif/target RUSTFLAGS="--cfg sierra_db_sierradb_verif"
# prebuild the replay binaries so that a violation is replayed without a cold build (best effort)
cargo build --offline -p replay-core -p replay-topology -p replay-cluster -p replay-server || true
