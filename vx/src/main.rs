//! vx — mechanical extraction of items from /repo source files for the verifier units.
//!
//! Reads a JSON request on stdin, writes a JSON response on stdout. For every requested
//! item the source file is re-parsed (syn), the item is located by path, a closed catalogue
//! of rewrites is applied on the AST (see DESIGN.md §2.1), marker macro statements are
//! inserted where contracts / loop invariants / proof hints are to be spliced, and the item
//! is printed with prettyplease. Bodies are otherwise token-for-token what /repo contains.

use proc_macro2::{Span, TokenStream, TokenTree};
use quote::{quote, ToTokens};
use regex::Regex;
use serde::{Deserialize, Serialize};
use sha2::{Digest, Sha256};
use std::collections::BTreeMap;
use std::io::Read;
use syn::visit_mut::{self, VisitMut};
use syn::*;
use syn::parse::Parser;

#[derive(Deserialize)]
struct Request {
    repo: String,
    items: Vec<ItemReq>,
}

#[derive(Deserialize, Clone, Default)]
struct LoopReq {
    /// marker name suffix
    name: String,
    /// regex (on the compact token string of the loop header) that must match
    guard: String,
    /// pick the nth (0-based) loop among those matching the guard; default: must be unique
    #[serde(default)]
    nth: Option<usize>,
    /// R9: name for an unused `_` binder of a `for` loop
    #[serde(default)]
    binder: Option<String>,
}

#[derive(Deserialize, Clone, Default)]
struct AnchorReq {
    name: String,
    /// regex matched at the START of the compact token string of a statement
    pattern: String,
    /// "before" | "after"
    #[serde(default)]
    position: Option<String>,
    #[serde(default)]
    nth: Option<usize>,
}

#[derive(Deserialize, Clone, Default)]
struct SliceReq {
    /// regex at start of first statement of the slice
    from: String,
    /// regex at start of last statement of the slice (inclusive)
    to: String,
    /// signature text for the lifted function: e.g. "fn slice_x(a: &mut Vec<u8>, b: u64) -> bool"
    sig: String,
    /// optional tail expression text appended after the lifted statements
    #[serde(default)]
    tail: Option<String>,
}

#[derive(Deserialize, Clone, Default)]
struct ItemReq {
    id: String,
    file: String,
    path: String,
    #[serde(default)]
    spec: bool,
    #[serde(default)]
    ret_name: Option<String>,
    #[serde(default)]
    loops: Vec<LoopReq>,
    #[serde(default)]
    anchors: Vec<AnchorReq>,
    #[serde(default)]
    keep_fields: Option<Vec<String>>,
    #[serde(default)]
    extra_fields: Vec<String>,
    /// K1 (Kani only): replace the value of an extracted `const` (scaled buffer sizes)
    #[serde(default)]
    override_value: Option<String>,
    /// D3 for enums: keep only these variants
    #[serde(default)]
    keep_variants: Option<Vec<String>>,
    #[serde(default)]
    keep_derives: Option<Vec<String>>,
    #[serde(default)]
    rules: Vec<String>,
    #[serde(default)]
    rename: Option<String>,
    #[serde(default)]
    slice: Option<SliceReq>,
    /// keep visibility as in source (default: normalise to pub, D5)
    #[serde(default)]
    keep_vis: bool,
    /// R1 replacement expression text (default `verif_any()`)
    #[serde(default)]
    any_expr: Option<String>,
    /// R8: callee renames, applied to call paths / method names given as compact token strings
    #[serde(default)]
    rename_calls: BTreeMap<String, String>,
    /// strip `async` and `.await` (R4) — slices only
    #[serde(default)]
    erase_async: bool,
    /// drop `mut self`-less generics etc.: extra attrs to add verbatim before the item
    #[serde(default)]
    add_attrs: Vec<String>,
    /// H1: also extract, verbatim, the private helper methods of the same type (same file, inherent impls) that the extracted
    /// method calls through `self.name(..)` / `Self::name(..)`, transitively, unless the environment provides them (`env_methods`).
    /// Makes a unit survive an `extract method` refactoring of the function under contract.
    #[serde(default)]
    with_helpers: bool,
    #[serde(default)]
    env_methods: Vec<String>,
}

#[derive(Serialize, Default)]
struct ItemResp {
    id: String,
    ok: bool,
    error: Option<String>,
    text: String,
    src_file: String,
    line_start: usize,
    line_end: usize,
    sha256: String,
    ret_type: Option<String>,
    dropped: Vec<String>,
    rewrites: BTreeMap<String, usize>,
    loops: Vec<String>,
    src_lines_of_loops: Vec<usize>,
}

#[derive(Serialize)]
struct Response {
    items: Vec<ItemResp>,
}

fn compact(ts: &str) -> String {
    let mut out = String::new();
    for piece in ts.split_whitespace() {
        if let (Some(a), Some(b)) = (out.chars().last(), piece.chars().next()) {
            let w = |c: char| c.is_alphanumeric() || c == '_' || c == '\'' || c == '"';
            if w(a) && w(b) {
                out.push(' ');
            }
        }
        out.push_str(piece);
    }
    out
}

fn compact_tokens<T: ToTokens>(t: &T) -> String {
    compact(&t.to_token_stream().to_string())
}

fn span_lines(ts: &TokenStream) -> (usize, usize) {
    fn first(ts: &TokenStream) -> Option<Span> {
        ts.clone().into_iter().next().map(|t| match t {
            TokenTree::Group(g) => g.span_open(),
            o => o.span(),
        })
    }
    fn last(ts: &TokenStream) -> Option<Span> {
        ts.clone().into_iter().last().map(|t| match t {
            TokenTree::Group(g) => g.span_close(),
            o => o.span(),
        })
    }
    let a = first(ts).map(|s| s.start().line).unwrap_or(0);
    let b = last(ts).map(|s| s.end().line).unwrap_or(0);
    (a, b)
}

const TRACING: &[&str] = &["trace", "debug", "info", "warn", "error"];

fn is_tracing_macro(m: &Macro) -> bool {
    let segs: Vec<String> = m.path.segments.iter().map(|s| s.ident.to_string()).collect();
    // D7: debug-only assertions (absent from release builds) are dropped with the tracing macros
    if segs.len() == 1 && (segs[0] == "debug_assert" || segs[0] == "debug_assert_eq" || segs[0] == "debug_assert_ne") {
        return true;
    }
    match segs.as_slice() {
        [one] => TRACING.contains(&one.as_str()),
        [a, b] => (a == "tracing" || a == "log") && TRACING.contains(&b.as_str()),
        _ => false,
    }
}

const MUTATING: &[&str] = &[
    "push", "insert", "remove", "pop", "take", "next", "send", "store", "swap", "fetch_add",
    "fetch_sub", "clear", "drain", "retain", "extend", "truncate", "set", "replace",
];

struct Rewriter<'a> {
    req: &'a ItemReq,
    dropped: Vec<String>,
    rewrites: BTreeMap<String, usize>,
    errors: Vec<String>,
    in_trait_impl: bool,
    top: bool,
}

impl<'a> Rewriter<'a> {
    fn bump(&mut self, k: &str) {
        *self.rewrites.entry(k.to_string()).or_insert(0) += 1;
    }
    fn rule(&self, r: &str) -> bool {
        self.req.rules.iter().any(|x| x == r)
    }

    fn filter_attrs(&mut self, attrs: &mut Vec<Attribute>) {
        let allowed: Vec<String> = self
            .req
            .keep_derives
            .clone()
            .unwrap_or_else(|| {
                ["Clone", "Copy", "PartialEq", "Eq", "Debug", "Default"].iter().map(|s| s.to_string()).collect()
            });
        let mut out = Vec::new();
        for a in attrs.drain(..) {
            let name = a.path().segments.last().map(|s| s.ident.to_string()).unwrap_or_default();
            match name.as_str() {
                "derive" => {
                    let mut kept: Vec<Path> = Vec::new();
                    let mut dropped_d: Vec<String> = Vec::new();
                    let _ = a.parse_nested_meta(|m| {
                        let n = m.path.segments.last().map(|s| s.ident.to_string()).unwrap_or_default();
                        if allowed.contains(&n) {
                            kept.push(m.path.clone());
                        } else {
                            dropped_d.push(n);
                        }
                        Ok(())
                    });
                    if !dropped_d.is_empty() {
                        self.dropped.push(format!("derive({})", dropped_d.join(",")));
                        self.bump("D1");
                    }
                    if !kept.is_empty() {
                        let na: Attribute = parse_quote!(#[derive(#(#kept),*)]);
                        out.push(na);
                    }
                }
                "repr" | "default" => out.push(a),
                "doc" => {
                    // doc comments are dropped silently (counted once)
                    self.bump("D1.doc");
                }
                _ => {
                    self.dropped.push(format!("attr #[{}]", compact_tokens(&a.meta)));
                    self.bump("D1");
                }
            }
        }
        *attrs = out;
    }

    fn check_tracing_args(&mut self, m: &Macro) {
        // D7: a debug_assert*! is absent from release builds together with any side effect of its arguments: dropping it is the
        // release-build semantics (recorded, not refused)
        let first = m.path.segments.first().map(|s| s.ident.to_string()).unwrap_or_default();
        if first.starts_with("debug_assert") {
            self.dropped.push(format!("D7 {}!({})", first, compact(&m.tokens.to_string())));
            return;
        }
        let s = compact(&m.tokens.to_string());
        if s.contains(".await") {
            self.errors.push(format!("D2: tracing macro with .await argument: {}", s));
        }
        for name in MUTATING {
            let pat = format!(".{}(", name);
            if s.contains(&pat) {
                self.errors.push(format!("D2: tracing macro argument calls .{}(): {}", name, s));
            }
        }
    }
}

fn is_nondet_expr(e: &Expr) -> bool {
    // R1: an expression (method-call chain) rooted at a wall-clock or RNG draw
    fn root_is_nondet(e: &Expr) -> bool {
        match e {
            Expr::MethodCall(mc) => {
                let m = mc.method.to_string();
                if (m == "random" || m == "random_range" || m == "gen" || m == "gen_range" || m == "next_u64" || m == "next_u32")
                    && matches!(&*mc.receiver, Expr::Path(_))
                {
                    return true;
                }
                root_is_nondet(&mc.receiver)
            }
            Expr::Call(c) => {
                let f = compact_tokens(&c.func);
                f.ends_with("SystemTime::now")
                    || f.ends_with("Instant::now")
                    || f.ends_with("Uuid::new_v4")
                    || f.ends_with("rand::random")
                    || f.ends_with("Utc::now")
            }
            Expr::Paren(p) => root_is_nondet(&p.expr),
            Expr::Cast(c) => root_is_nondet(&c.expr),
            Expr::Try(t) => root_is_nondet(&t.expr),
            _ => false,
        }
    }
    root_is_nondet(e)
}

impl<'a> VisitMut for Rewriter<'a> {
    fn visit_item_mut(&mut self, i: &mut Item) {
        let top = self.top;
        self.top = false;
        match i {
            Item::Fn(f) => {
                self.filter_attrs(&mut f.attrs);
                if !self.req.keep_vis {
                    f.vis = parse_quote!(pub);
                }
            }
            Item::Struct(s) => {
                self.filter_attrs(&mut s.attrs);
                if !self.req.keep_vis {
                    s.vis = parse_quote!(pub);
                }
                let keep = self.req.keep_fields.clone();
                let extra = self.req.extra_fields.clone();
                match &mut s.fields {
                    Fields::Named(n) => {
                        let mut newf = punctuated::Punctuated::<Field, token::Comma>::new();
                        for mut f in std::mem::take(&mut n.named).into_iter() {
                            let name = f.ident.as_ref().unwrap().to_string();
                            if let Some(k) = &keep {
                                if !k.contains(&name) {
                                    self.dropped.push(format!("field {}: {}", name, compact_tokens(&f.ty)));
                                    self.bump("D3");
                                    continue;
                                }
                            }
                            self.filter_attrs(&mut f.attrs);
                            if !self.req.keep_vis {
                                f.vis = parse_quote!(pub);
                            }
                            newf.push(f);
                        }
                        if top {
                            for e in &extra {
                                match Field::parse_named.parse_str(e) {
                                    Ok(f) => {
                                        newf.push(f);
                                        self.bump("G1");
                                    }
                                    Err(er) => self.errors.push(format!("extra field `{}`: {}", e, er)),
                                }
                            }
                        }
                        n.named = newf;
                    }
                    Fields::Unnamed(u) => {
                        for f in u.unnamed.iter_mut() {
                            self.filter_attrs(&mut f.attrs);
                            if !self.req.keep_vis {
                                f.vis = parse_quote!(pub);
                            }
                        }
                    }
                    Fields::Unit => {}
                }
            }
            Item::Enum(e) => {
                self.filter_attrs(&mut e.attrs);
                if !self.req.keep_vis {
                    e.vis = parse_quote!(pub);
                }
                if let Some(kv) = self.req.keep_variants.clone() {
                    if top {
                        let mut newv = punctuated::Punctuated::<Variant, token::Comma>::new();
                        for v in std::mem::take(&mut e.variants).into_iter() {
                            if kv.contains(&v.ident.to_string()) {
                                newv.push(v);
                            } else {
                                self.dropped.push(format!("variant {}", v.ident));
                                self.bump("D3");
                            }
                        }
                        e.variants = newv;
                    }
                }
                for v in e.variants.iter_mut() {
                    self.filter_attrs(&mut v.attrs);
                    for f in v.fields.iter_mut() {
                        self.filter_attrs(&mut f.attrs);
                    }
                }
            }
            Item::Const(c) => {
                if top {
                    if let Some(v) = &self.req.override_value {
                        match parse_str::<Expr>(v) {
                            Ok(e) => {
                                self.dropped.push(format!("K1 const {} = {} scaled to {}", c.ident, compact_tokens(&c.expr), v));
                                *c.expr = e;
                                self.bump("K1");
                            }
                            Err(er) => self.errors.push(format!("K1 override_value: {}", er)),
                        }
                    }
                }
                self.filter_attrs(&mut c.attrs);
                if !self.req.keep_vis {
                    c.vis = parse_quote!(pub);
                }
            }
            Item::Static(c) => {
                self.filter_attrs(&mut c.attrs);
                if !self.req.keep_vis {
                    c.vis = parse_quote!(pub);
                }
            }
            Item::Type(c) => {
                self.filter_attrs(&mut c.attrs);
                if !self.req.keep_vis {
                    c.vis = parse_quote!(pub);
                }
            }
            Item::Trait(c) => {
                self.filter_attrs(&mut c.attrs);
                if !self.req.keep_vis {
                    c.vis = parse_quote!(pub);
                }
            }
            Item::Impl(im) => {
                self.filter_attrs(&mut im.attrs);
                let was = self.in_trait_impl;
                self.in_trait_impl = im.trait_.is_some();
                visit_mut::visit_item_impl_mut(self, im);
                self.in_trait_impl = was;
                return;
            }
            _ => {}
        }
        visit_mut::visit_item_mut(self, i);
    }

    fn visit_impl_item_fn_mut(&mut self, f: &mut ImplItemFn) {
        self.filter_attrs(&mut f.attrs);
        if !self.in_trait_impl && !self.req.keep_vis {
            f.vis = parse_quote!(pub);
        }
        if self.req.erase_async && f.sig.asyncness.is_some() {
            f.sig.asyncness = None;
            self.bump("R4");
        }
        visit_mut::visit_impl_item_fn_mut(self, f);
    }

    fn visit_item_fn_mut(&mut self, f: &mut ItemFn) {
        if self.req.erase_async && f.sig.asyncness.is_some() {
            f.sig.asyncness = None;
            self.bump("R4");
        }
        visit_mut::visit_item_fn_mut(self, f);
    }

    fn visit_trait_item_fn_mut(&mut self, f: &mut TraitItemFn) {
        self.filter_attrs(&mut f.attrs);
        visit_mut::visit_trait_item_fn_mut(self, f);
    }

    fn visit_local_mut(&mut self, l: &mut Local) {
        if !l.attrs.is_empty() {
            self.filter_attrs(&mut l.attrs);
        }
        visit_mut::visit_local_mut(self, l);
    }

    fn visit_block_mut(&mut self, b: &mut Block) {
        // D2: drop tracing macro statements
        let mut out = Vec::with_capacity(b.stmts.len());
        for s in std::mem::take(&mut b.stmts) {
            let drop = match &s {
                Stmt::Macro(sm) if is_tracing_macro(&sm.mac) => {
                    self.check_tracing_args(&sm.mac);
                    true
                }
                Stmt::Expr(Expr::Macro(em), Some(_)) if is_tracing_macro(&em.mac) => {
                    self.check_tracing_args(&em.mac);
                    true
                }
                _ => false,
            };
            // D6: statements guarded by the verification-hook cfg are not part of the shipped code
            let hook_guarded = stmt_attrs(&s).iter().any(|a| a.path().is_ident("cfg") && compact_tokens(&a.meta).contains("sierra_db_sierradb_verif"));
            if hook_guarded {
                self.dropped.push(format!("D6 hook statement `{}`", compact_tokens(&s).chars().take(80).collect::<String>()));
                self.bump("D6");
                continue;
            }
            // R1: the handle of a random generator is dropped together with its draws
            let drop_rng = self.rule("R1")
                && matches!(&s, Stmt::Local(l) if l.init.as_ref().map(|i| {
                    let c = compact_tokens(&i.expr);
                    c == "rand::rng()" || c == "rand::thread_rng()" || c == "thread_rng()"
                }).unwrap_or(false));
            if drop {
                self.bump("D2");
            } else if drop_rng {
                self.dropped.push(format!("R1 dropped `{}`", compact_tokens(&s)));
                self.bump("R1");
            } else {
                out.push(s);
            }
        }
        b.stmts = out;
        visit_mut::visit_block_mut(self, b);
    }

    fn visit_expr_mut(&mut self, e: &mut Expr) {
        // D2 in expression position
        if let Expr::Macro(em) = e {
            if is_tracing_macro(&em.mac) {
                self.check_tracing_args(&em.mac);
                self.bump("D2");
                *e = parse_quote!(());
                return;
            }
        }
        // R1 non-determinism
        if self.rule("R1") && is_nondet_expr(e) {
            let mut any = self.req.any_expr.clone().unwrap_or_else(|| "verif_any()".to_string());
            // keep an explicit turbofish type of the draw: `rng.random::<u16>()` -> `verif_any::<u16>()`
            {
                if let Expr::MethodCall(mc) = &*e {
                    if let Some(tf) = &mc.turbofish {
                        if tf.args.len() == 1 {
                            any = format!("verif_any::<{}>()", tf.args.first().unwrap().to_token_stream());
                        }
                    }
                }
            }
            match parse_str::<Expr>(&any) {
                Ok(ne) => {
                    self.dropped.push(format!("R1 replaced `{}`", compact_tokens(e)));
                    *e = ne;
                    self.bump("R1");
                    return;
                }
                Err(er) => self.errors.push(format!("R1 any_expr: {}", er)),
            }
        }
        // R4 async erasure
        if self.req.erase_async {
            // `tokio::spawn(async move { B })` -> `{ B }` (the spawned task is run in place)
            if let Expr::Call(c) = e {
                let f = compact_tokens(&c.func);
                if (f == "tokio::spawn" || f == "spawn") && c.args.len() == 1 {
                    if let Some(Expr::Async(a)) = c.args.first() {
                        let blk = a.block.clone();
                        *e = Expr::Block(ExprBlock { attrs: vec![], label: None, block: blk });
                        self.bump("R4");
                        self.visit_expr_mut(e);
                        return;
                    }
                }
            }
            // `ctx.spawn(async move { B })` (kameo's delegated reply) -> `{ B }` likewise
            if let Expr::MethodCall(mc) = e {
                if mc.method == "spawn" && mc.args.len() == 1 {
                    if let Some(Expr::Async(a)) = mc.args.first() {
                        let blk = a.block.clone();
                        *e = Expr::Block(ExprBlock { attrs: vec![], label: None, block: blk });
                        self.bump("R4");
                        self.visit_expr_mut(e);
                        return;
                    }
                }
            }
            if let Expr::Await(a) = e {
                let inner = (*a.base).clone();
                *e = inner;
                self.bump("R4");
                self.visit_expr_mut(e);
                return;
            }
        }
        // R8 callee renames
        if !self.req.rename_calls.is_empty() {
            match e {
                Expr::Call(c) => {
                    let f = compact_tokens(&c.func);
                    if let Some(n) = self.req.rename_calls.get(&f) {
                        match parse_str::<Expr>(n) {
                            Ok(ne) => {
                                *c.func = ne;
                                self.bump("R8");
                            }
                            Err(er) => self.errors.push(format!("R8 `{}`: {}", n, er)),
                        }
                    }
                }
                Expr::MethodCall(mc) => {
                    let key = format!(".{}", mc.method);
                    if let Some(n) = self.req.rename_calls.get(&key) {
                        // `.m(args)` -> `n(recv, args)`
                        let recv = (*mc.receiver).clone();
                        let args = mc.args.clone();
                        match parse_str::<Expr>(n) {
                            Ok(func) => {
                                let ne: Expr = if args.is_empty() {
                                    parse_quote!(#func(#recv))
                                } else {
                                    parse_quote!(#func(#recv, #args))
                                };
                                *e = ne;
                                self.bump("R8");
                            }
                            Err(er) => self.errors.push(format!("R8 `{}`: {}", n, er)),
                        }
                    }
                }
                _ => {}
            }
        }
        // R10 (Verus only): `&mut v[a..]` -> `slice_tail_mut(&mut v, a)`: std's IndexMut<RangeFrom<usize>> is generic over SliceIndex and
        // cannot be given an assume_specification; the shim carries its documented semantics (requires a <= len; the parent is the
        // untouched prefix followed by the returned slice)
        if self.rule("R10") {
            if let Expr::Reference(r) = e {
                if r.mutability.is_some() {
                    if let Expr::Index(ix) = &*r.expr {
                        if let Expr::Range(rg) = &*ix.index {
                            if rg.end.is_none() && matches!(rg.limits, RangeLimits::HalfOpen(_)) {
                                if let Some(start) = &rg.start {
                                    let base = (*ix.expr).clone();
                                    let st = (**start).clone();
                                    let ne: Expr = parse_quote!(slice_tail_mut(&mut #base, #st));
                                    *e = ne;
                                    self.bump("R10");
                                }
                            }
                        }
                    }
                }
            }
        }
        // R3 else-less let-chains: `if a && let P = e { B }` -> `if a { if let P = e { B } }`
        if self.rule("R3") {
            if let Expr::If(ei) = e {
                if ei.else_branch.is_none() {
                    if let Expr::Binary(b) = &*ei.cond {
                        if matches!(b.op, BinOp::And(_)) && matches!(&*b.right, Expr::Let(_)) && !contains_let(&b.left) {
                            let left = (*b.left).clone();
                            let right = (*b.right).clone();
                            let body = ei.then_branch.clone();
                            let ne: Expr = parse_quote!(if #left { if #right #body });
                            *e = ne;
                            self.bump("R3");
                        }
                    }
                }
            }
        }
        visit_mut::visit_expr_mut(self, e);
    }

    fn visit_expr_closure_mut(&mut self, c: &mut ExprClosure) {
        // R2: name `_` closure params
        if self.rule("R2") {
            let mut k = 0;
            for p in c.inputs.iter_mut() {
                if let Pat::Wild(_) = p {
                    let id = Ident::new(&format!("_vx_unused{}", k), Span::call_site());
                    *p = parse_quote!(#id);
                    k += 1;
                    self.bump("R2");
                }
            }
        }
        visit_mut::visit_expr_closure_mut(self, c);
    }
}

fn stmt_attrs(s: &Stmt) -> Vec<Attribute> {
    match s {
        Stmt::Local(l) => l.attrs.clone(),
        Stmt::Macro(m) => m.attrs.clone(),
        Stmt::Item(_) => vec![],
        Stmt::Expr(e, _) => match e {
            Expr::If(x) => x.attrs.clone(),
            Expr::Block(x) => x.attrs.clone(),
            Expr::Call(x) => x.attrs.clone(),
            Expr::MethodCall(x) => x.attrs.clone(),
            Expr::Macro(x) => x.attrs.clone(),
            Expr::Match(x) => x.attrs.clone(),
            Expr::Return(x) => x.attrs.clone(),
            Expr::Assign(x) => x.attrs.clone(),
            Expr::ForLoop(x) => x.attrs.clone(),
            Expr::While(x) => x.attrs.clone(),
            Expr::Unsafe(x) => x.attrs.clone(),
            _ => vec![],
        },
    }
}

fn contains_let(e: &Expr) -> bool {
    match e {
        Expr::Let(_) => true,
        Expr::Binary(b) => contains_let(&b.left) || contains_let(&b.right),
        Expr::Paren(p) => contains_let(&p.expr),
        _ => false,
    }
}

/// Marker insertion on a function body.
struct Marker<'a> {
    req: &'a ItemReq,
    loop_headers: Vec<String>,
    loop_lines: Vec<usize>,
    /// (loop index in pre-order) per request
    loop_hits: Vec<Vec<usize>>,
    anchor_hits: Vec<usize>,
    counter: usize,
    pass: u8, // 0 = count, 1 = insert
    chosen_loops: BTreeMap<usize, usize>, // preorder idx -> req idx
    errors: Vec<String>,
    rewrites: BTreeMap<String, usize>,
}

fn loop_header(e: &Expr) -> Option<String> {
    match e {
        Expr::ForLoop(f) => Some(format!("for {} in {}", compact_tokens(&f.pat), compact_tokens(&f.expr))),
        Expr::While(w) => Some(format!("while {}", compact_tokens(&w.cond))),
        Expr::Loop(_) => Some("loop".to_string()),
        _ => None,
    }
}

impl<'a> VisitMut for Marker<'a> {
    fn visit_expr_mut(&mut self, e: &mut Expr) {
        if let Some(h) = loop_header(e) {
            let idx = self.counter;
            self.counter += 1;
            if self.pass == 0 {
                let line = e.to_token_stream().into_iter().next().map(|t| t.span().start().line).unwrap_or(0);
                self.loop_headers.push(h.clone());
                self.loop_lines.push(line);
                for (ri, r) in self.req.loops.iter().enumerate() {
                    if let Ok(re) = Regex::new(&r.guard) {
                        if re.is_match(&h) {
                            self.loop_hits[ri].push(idx);
                        }
                    }
                }
            } else if let Some(&ri) = self.chosen_loops.get(&idx) {
                let r = &self.req.loops[ri];
                let mname = Ident::new(&format!("__vx_loop_{}", r.name), Span::call_site());
                let marker: Stmt = parse_quote!(#mname!(););
                match e {
                    Expr::ForLoop(f) => {
                        if let Some(b) = &r.binder {
                            if let Pat::Wild(_) = &*f.pat {
                                let id = Ident::new(b, Span::call_site());
                                *f.pat = parse_quote!(#id);
                                *self.rewrites.entry("R9".into()).or_insert(0) += 1;
                            }
                        }
                        f.body.stmts.insert(0, marker);
                    }
                    Expr::While(w) => w.body.stmts.insert(0, marker),
                    Expr::Loop(l) => l.body.stmts.insert(0, marker),
                    _ => {}
                }
            }
        }
        visit_mut::visit_expr_mut(self, e);
    }

    fn visit_block_mut(&mut self, b: &mut Block) {
        // children first so that indices in this block are not disturbed by nested insertions
        visit_mut::visit_block_mut(self, b);
        if self.req.anchors.is_empty() {
            return;
        }
        let mut inserts: Vec<(usize, Stmt)> = Vec::new();
        for (si, s) in b.stmts.iter().enumerate() {
            let st = strip_markers(&compact_tokens(s));
            for (ai, a) in self.req.anchors.iter().enumerate() {
                let pat = if a.pattern.starts_with('^') { a.pattern.clone() } else { format!("^(?:{})", a.pattern) };
                let re = match Regex::new(&pat) {
                    Ok(r) => r,
                    Err(er) => {
                        if self.pass == 0 {
                            self.errors.push(format!("anchor {} regex: {}", a.name, er));
                        }
                        continue;
                    }
                };
                if re.is_match(&st) {
                    if self.pass == 0 {
                        self.anchor_hits[ai] += 1;
                    } else {
                        let hitno = self.anchor_hits[ai];
                        self.anchor_hits[ai] += 1;
                        let want = a.nth.unwrap_or(0);
                        if hitno == want {
                            let mname = Ident::new(&format!("__vx_at_{}", a.name), Span::call_site());
                            let marker: Stmt = parse_quote!(#mname!(););
                            let after = a.position.as_deref() == Some("after");
                            inserts.push((if after { si + 1 } else { si }, marker));
                        }
                    }
                }
            }
        }
        inserts.sort_by(|a, b| b.0.cmp(&a.0));
        for (pos, m) in inserts {
            b.stmts.insert(pos, m);
        }
    }
}

fn strip_markers(s: &str) -> String {
    let re = Regex::new(r"__vx_[A-Za-z0-9_]+!\(\);").unwrap();
    re.replace_all(s, "").to_string()
}

fn mark_fn(req: &ItemReq, sig: &mut Signature, block: &mut Block, resp: &mut ItemResp) -> Vec<String> {
    let mut errors = Vec::new();
    let mut m = Marker {
        req,
        loop_headers: vec![],
        loop_lines: vec![],
        loop_hits: vec![vec![]; req.loops.len()],
        anchor_hits: vec![0; req.anchors.len()],
        counter: 0,
        pass: 0,
        chosen_loops: BTreeMap::new(),
        errors: vec![],
        rewrites: BTreeMap::new(),
    };
    m.visit_block_mut(block);
    resp.loops = m.loop_headers.clone();
    resp.src_lines_of_loops = m.loop_lines.clone();
    for (ri, r) in req.loops.iter().enumerate() {
        let hits = &m.loop_hits[ri];
        let chosen = match (hits.len(), r.nth) {
            (0, _) => {
                errors.push(format!("ANCHOR-LOST loop `{}`: guard /{}/ matches no loop (loops: {:?})", r.name, r.guard, m.loop_headers));
                continue;
            }
            (1, None) => hits[0],
            (_, Some(n)) if n < hits.len() => hits[n],
            (n, _) => {
                errors.push(format!("ANCHOR-LOST loop `{}`: guard /{}/ matches {} loops", r.name, r.guard, n));
                continue;
            }
        };
        m.chosen_loops.insert(chosen, ri);
    }
    for (ai, a) in req.anchors.iter().enumerate() {
        let n = m.anchor_hits[ai];
        let want = a.nth;
        if n == 0 || (n > 1 && want.is_none()) || want.map(|w| w >= n).unwrap_or(false) {
            errors.push(format!("ANCHOR-LOST anchor `{}`: pattern /{}/ matches {} statements", a.name, a.pattern, n));
        }
    }
    errors.extend(m.errors.drain(..));
    if !errors.is_empty() {
        return errors;
    }
    m.pass = 1;
    m.counter = 0;
    m.anchor_hits = vec![0; req.anchors.len()];
    m.visit_block_mut(block);
    for (k, v) in m.rewrites {
        *resp.rewrites.entry(k).or_insert(0) += v;
    }
    if req.spec {
        block.stmts.insert(0, parse_quote!(__vx_spec!();));
        if let Some(_name) = &req.ret_name {
            if let ReturnType::Type(_, ty) = &mut sig.output {
                resp.ret_type = Some(ty.to_token_stream().to_string());
                **ty = parse_quote!(__VxRet);
            }
        }
    }
    if let Some(n) = &req.rename {
        sig.ident = Ident::new(n, Span::call_site());
    }
    errors
}

struct PathSpec {
    mods: Vec<String>,
    kind: String,
    trait_: Option<String>,
    /// compact text of the trait's generic arguments (`impl Message<GetStreamVersion> for X` -> `<GetStreamVersion>`), if given
    trait_args: Option<String>,
    name: String,
    method: Option<String>,
}

fn parse_path(p: &str) -> std::result::Result<PathSpec, String> {
    let mut rest = p.trim();
    let mut mods = vec![];
    if let Some(r) = rest.strip_prefix("mod ") {
        // "mod a::b::<rest>"
        let (m, tail) = r.split_once(' ').ok_or("bad mod path")?;
        let m = m.trim_end_matches("::");
        mods = m.split("::").map(|s| s.to_string()).collect();
        rest = tail.trim();
    }
    let (kind, tail) = rest.split_once(' ').ok_or_else(|| format!("bad item path `{}`", p))?;
    let tail = tail.trim();
    if kind == "impl" {
        let mut trait_args: Option<String> = None;
        let (trait_, tyrest) = match tail.split_once(" for ") {
            Some((t, r)) => {
                let t = t.trim();
                if let Some(i) = t.find('<') {
                    trait_args = Some(compact(&t[i..]));
                }
                let t = t.split('<').next().unwrap().trim();
                (Some(t.rsplit("::").next().unwrap().to_string()), r.trim())
            }
            None => (None, tail),
        };
        let (name, method) = match tyrest.split_once("::") {
            Some((n, m)) => (n.to_string(), Some(m.to_string())),
            None => (tyrest.to_string(), None),
        };
        Ok(PathSpec { mods, kind: kind.into(), trait_, trait_args, name, method })
    } else {
        Ok(PathSpec { mods, kind: kind.into(), trait_: None, trait_args: None, name: tail.to_string(), method: None })
    }
}

fn has_cfg_test(attrs: &[Attribute]) -> bool {
    attrs.iter().any(|a| a.path().is_ident("cfg") && compact_tokens(&a.meta).contains("test"))
}

fn self_ty_name(t: &Type) -> String {
    match t {
        Type::Path(p) => p.path.segments.last().map(|s| s.ident.to_string()).unwrap_or_default(),
        Type::Reference(r) => self_ty_name(&r.elem),
        _ => String::new(),
    }
}

fn find_items<'a>(items: &'a [Item], ps: &PathSpec, depth: usize) -> Vec<Item> {
    if depth < ps.mods.len() {
        for it in items {
            if let Item::Mod(m) = it {
                if m.ident == ps.mods[depth] {
                    if let Some((_, inner)) = &m.content {
                        return find_items(inner, ps, depth + 1);
                    }
                }
            }
        }
        return vec![];
    }
    let mut out = vec![];
    for it in items {
        match (ps.kind.as_str(), it) {
            ("fn", Item::Fn(f)) if f.sig.ident == ps.name && !has_cfg_test(&f.attrs) => out.push(it.clone()),
            ("struct", Item::Struct(s)) if s.ident == ps.name => out.push(it.clone()),
            ("enum", Item::Enum(s)) if s.ident == ps.name => out.push(it.clone()),
            ("const", Item::Const(s)) if s.ident == ps.name => out.push(it.clone()),
            ("static", Item::Static(s)) if s.ident == ps.name => out.push(it.clone()),
            ("type", Item::Type(s)) if s.ident == ps.name => out.push(it.clone()),
            ("trait", Item::Trait(s)) if s.ident == ps.name => out.push(it.clone()),
            ("macro", Item::Macro(m)) if m.ident.as_ref().map(|i| i == &ps.name).unwrap_or(false) => out.push(it.clone()),
            ("impl", Item::Impl(im)) if !has_cfg_test(&im.attrs) => {
                if self_ty_name(&im.self_ty) != ps.name {
                    continue;
                }
                let tn = im.trait_.as_ref().map(|(_, p, _)| p.segments.last().unwrap().ident.to_string());
                if tn != ps.trait_ {
                    continue;
                }
                if let (Some(want), Some((_, p, _))) = (&ps.trait_args, im.trait_.as_ref()) {
                    let have = compact_tokens(&p.segments.last().unwrap().arguments);
                    if &have != want {
                        continue;
                    }
                }
                match &ps.method {
                    None => out.push(it.clone()),
                    Some(m) => {
                        for ii in &im.items {
                            let matches = match ii {
                                ImplItem::Fn(f) => f.sig.ident == m,
                                ImplItem::Const(c) => c.ident == m,
                                ImplItem::Type(t) => t.ident == m,
                                _ => false,
                            };
                            if matches {
                                let mut single = im.clone();
                                single.items = vec![ii.clone()];
                                out.push(Item::Impl(single));
                            }
                        }
                    }
                }
            }
            _ => {}
        }
    }
    out
}

fn do_slice(req: &ItemReq, sl: &SliceReq, block: &Block) -> std::result::Result<Item, String> {
    // R5: find, in any nested block, a contiguous statement range [from..=to]
    fn search(b: &Block, from: &Regex, to: &Regex, found: &mut Vec<Vec<Stmt>>) {
        let strs: Vec<String> = b.stmts.iter().map(|s| compact_tokens(s)).collect();
        for (i, s) in strs.iter().enumerate() {
            if from.is_match(s) {
                for j in i..strs.len() {
                    if to.is_match(&strs[j]) {
                        found.push(b.stmts[i..=j].to_vec());
                        break;
                    }
                }
            }
        }
        struct V<'r> {
            from: &'r Regex,
            to: &'r Regex,
            found: &'r mut Vec<Vec<Stmt>>,
        }
        impl<'r, 'ast> syn::visit::Visit<'ast> for V<'r> {
            fn visit_block(&mut self, b: &'ast Block) {
                search(b, self.from, self.to, self.found);
            }
        }
        for s in &b.stmts {
            let mut v = V { from, to, found };
            syn::visit::visit_stmt(&mut v, s);
        }
    }
    let anch = |p: &str| -> std::result::Result<Regex, String> {
        let pat = if p.starts_with('^') { p.to_string() } else { format!("^(?:{})", p) };
        Regex::new(&pat).map_err(|e| e.to_string())
    };
    let from = anch(&sl.from)?;
    let to = anch(&sl.to)?;
    let mut found = vec![];
    search(block, &from, &to, &mut found);
    if found.len() != 1 {
        return Err(format!("ANCHOR-LOST slice of `{}`: from/to matched {} ranges", req.id, found.len()));
    }
    let stmts = &found[0];
    let sig: Signature = parse_str(&sl.sig).map_err(|e| format!("slice sig: {}", e))?;
    let tail: Option<Expr> = match &sl.tail {
        Some(t) => Some(parse_str(t).map_err(|e| format!("slice tail: {}", e))?),
        None => None,
    };
    let f: ItemFn = match tail {
        Some(t) => parse_quote!(pub #sig { #(#stmts)* #t }),
        None => parse_quote!(pub #sig { #(#stmts)* }),
    };
    Ok(Item::Fn(f))
}

fn process(repo: &str, req: &ItemReq) -> ItemResp {
    let mut resp = ItemResp { id: req.id.clone(), src_file: req.file.clone(), ..Default::default() };
    let path = format!("{}/{}", repo, req.file);
    let src = match std::fs::read_to_string(&path) {
        Ok(s) => s,
        Err(e) => {
            resp.error = Some(format!("ANCHOR-LOST cannot read {}: {}", path, e));
            return resp;
        }
    };
    let file = match parse_file(&src) {
        Ok(f) => f,
        Err(e) => {
            resp.error = Some(format!("PARSE-ERROR {}: {}", path, e));
            return resp;
        }
    };
    let ps = match parse_path(&req.path) {
        Ok(p) => p,
        Err(e) => {
            resp.error = Some(e);
            return resp;
        }
    };
    let found = find_items(&file.items, &ps, 0);
    if found.len() != 1 {
        resp.error = Some(format!("ANCHOR-LOST item `{}` in {}: found {} matches", req.path, req.file, found.len()));
        return resp;
    }
    let mut item = found.into_iter().next().unwrap();
    if req.with_helpers {
        if let Item::Impl(single) = &mut item {
            // all inherent methods of the type in this file
            let mut all: BTreeMap<String, ImplItemFn> = BTreeMap::new();
            fn collect(items: &[Item], ty: &str, all: &mut BTreeMap<String, ImplItemFn>) {
                for it in items {
                    match it {
                        Item::Impl(im) if im.trait_.is_none() && self_ty_name(&im.self_ty) == ty && !has_cfg_test(&im.attrs) => {
                            for ii in &im.items {
                                if let ImplItem::Fn(f) = ii {
                                    all.insert(f.sig.ident.to_string(), f.clone());
                                }
                            }
                        }
                        Item::Mod(m) if !has_cfg_test(&m.attrs) => {
                            if let Some((_, inner)) = &m.content {
                                collect(inner, ty, all);
                            }
                        }
                        _ => {}
                    }
                }
            }
            collect(&file.items, &ps.name, &mut all);
            struct Calls(Vec<String>);
            impl<'ast> syn::visit::Visit<'ast> for Calls {
                fn visit_expr_method_call(&mut self, mc: &'ast syn::ExprMethodCall) {
                    if compact_tokens(&mc.receiver) == "self" {
                        self.0.push(mc.method.to_string());
                    }
                    syn::visit::visit_expr_method_call(self, mc);
                }
                fn visit_expr_call(&mut self, c: &'ast syn::ExprCall) {
                    let f = compact_tokens(&c.func);
                    if let Some(n) = f.strip_prefix("Self::") {
                        self.0.push(n.to_string());
                    }
                    syn::visit::visit_expr_call(self, c);
                }
            }
            let mut have: Vec<String> = single.items.iter().filter_map(|ii| if let ImplItem::Fn(f) = ii { Some(f.sig.ident.to_string()) } else { None }).collect();
            let mut queue: Vec<ImplItemFn> = single.items.iter().filter_map(|ii| if let ImplItem::Fn(f) = ii { Some(f.clone()) } else { None }).collect();
            while let Some(f) = queue.pop() {
                let mut c = Calls(vec![]);
                syn::visit::Visit::visit_block(&mut c, &f.block);
                for name in c.0 {
                    if have.contains(&name) || req.env_methods.contains(&name) {
                        continue;
                    }
                    if let Some(h) = all.get(&name) {
                        have.push(name.clone());
                        single.items.push(ImplItem::Fn(h.clone()));
                        queue.push(h.clone());
                        *resp.rewrites.entry("H1".into()).or_insert(0) += 1;
                        resp.dropped.push(format!("H1 helper method `{}` extracted with the item", name));
                    }
                }
            }
        }
    }
    let ts = item.to_token_stream();
    let (a, b) = span_lines(&ts);
    resp.line_start = a;
    resp.line_end = b;
    let mut h = Sha256::new();
    h.update(ts.to_string().as_bytes());
    resp.sha256 = format!("{:x}", h.finalize());

    // R5 slicing happens before the other rewrites
    if let Some(sl) = &req.slice {
        let block = match &item {
            Item::Fn(f) => Some((*f.block).clone()),
            Item::Impl(im) => im.items.iter().find_map(|ii| if let ImplItem::Fn(f) = ii { Some(f.block.clone()) } else { None }),
            _ => None,
        };
        match block {
            Some(b) => match do_slice(req, sl, &b) {
                Ok(it) => {
                    item = it;
                    *resp.rewrites.entry("R5".into()).or_insert(0) += 1;
                }
                Err(e) => {
                    resp.error = Some(e);
                    return resp;
                }
            },
            None => {
                resp.error = Some("slice: item has no body".into());
                return resp;
            }
        }
    }

    let mut rw = Rewriter { req, dropped: vec![], rewrites: BTreeMap::new(), errors: vec![], in_trait_impl: false, top: true };
    rw.visit_item_mut(&mut item);
    resp.dropped = rw.dropped;
    for (k, v) in rw.rewrites {
        *resp.rewrites.entry(k).or_insert(0) += v;
    }
    let mut errors = rw.errors;

    // markers
    match &mut item {
        Item::Fn(f) => {
            let e = mark_fn(req, &mut f.sig, &mut f.block, &mut resp);
            errors.extend(e);
        }
        Item::Impl(im) if ps.method.is_some() => {
            for ii in im.items.iter_mut() {
                if let ImplItem::Fn(f) = ii {
                    let e = mark_fn(req, &mut f.sig, &mut f.block, &mut resp);
                    errors.extend(e);
                }
            }
        }
        _ => {
            if req.spec || !req.loops.is_empty() || !req.anchors.is_empty() {
                errors.push("markers requested on a non-function item".into());
            }
        }
    }
    if !errors.is_empty() {
        resp.error = Some(errors.join("; "));
        return resp;
    }
    let f = File { shebang: None, attrs: vec![], items: vec![item] };
    let text = std::panic::catch_unwind(|| prettyplease::unparse(&f));
    match text {
        Ok(t) => {
            let mut t = t;
            for a in &req.add_attrs {
                t = format!("{}\n{}", a, t);
            }
            resp.text = t;
            resp.ok = true;
        }
        Err(_) => resp.error = Some("prettyplease failed to print the item".into()),
    }
    resp
}

fn main() {
    let mut s = String::new();
    std::io::stdin().read_to_string(&mut s).expect("stdin");
    let req: Request = serde_json::from_str(&s).expect("request json");
    let mut items = vec![];
    for it in &req.items {
        items.push(process(&req.repo, it));
    }
    let _ = quote!();
    println!("{}", serde_json::to_string_pretty(&Response { items }).unwrap());
}
